#!/usr/bin/env python3
"""usage: storeseed.py <ID> <a|b> <target> <run regex> <pkg> [extra]  — copies a vetted round-2 seed into /verif/seeded/<ID><c|d>"""
import os, json, shutil, re, sys
id,k,target,rx,pkg=sys.argv[1:6]; extra=sys.argv[6] if len(sys.argv)>6 else ''
rnd=int(os.environ.get('SEED_ROUND','2'))
out=f'/tmp/vet/out/{id}{k}'
k2={2:{'a':'c','b':'d'},3:{'a':'e','b':'f'},4:{'a':'g','b':'h'},5:{'a':'i','b':'j'},6:{'a':'k','b':'l'},7:{'a':'m','b':'n'},8:{'a':'o','b':'p'},9:{'a':'q','b':'r'},10:{'a':'s','b':'t'}}[rnd][k]
d=f'/verif/seeded/{id}{k2}'
os.makedirs(d,exist_ok=True)
shutil.copy(out+'/applied.diff', d+'/patch.diff')
src=f'/tmp/seed{rnd}/{id}/_out/{k}'
import glob
shutil.copy(sorted(glob.glob(src+'/*_test.go'))[0], d+'/demo_test.go')
readme=''
if os.path.exists(src+'/README.md'):
    shutil.copy(src+'/README.md', d+'/README.agent.md'); readme=open(src+'/README.md').read()
m=re.search(r'(?is)(coincid[^\n]*\n(?:.*\n){0,8})', readme) or re.search(r'(?is)(needs?[^\n]*\n(?:.*\n){0,6})', readme)
meta={"property": id, "variant": k2, "round": rnd,
  "origin": "independent sub-agent (round 2: 'subtle and rare'; round 3: 'other layers, cooperating sites, configuration/sequence-dependent') given only the property text and a scratch worktree",
  "patch": "patch.diff (git diff against /repo HEAD at the time of vetting)",
  "demonstration": {"file": "demo_test.go", "copy_to": target, "run": f"go test -vet=off -count=1 {extra} -run '{rx}' {pkg}".replace('  ',' ')},
  "confirmed_by_me": {"applies": True, "go build ./...": "ok", "existing suite with the change (go test -vet=off -count=1 ./...)": "pass",
                      "demo with the change": "FAIL", "demo without the change": "pass", "how": "tools/vetseed in a scratch worktree under /tmp/vet (removed afterwards)"},
  "needs_to_manifest": (m.group(1).strip()[:1200] if m else "see README.agent.md")}
json.dump(meta, open(d+'/meta.json','w'), indent=1)
print('stored', d)
