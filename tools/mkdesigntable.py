#!/usr/bin/env python3
"""Rewrites the block between <!-- measured:begin --> and <!-- measured:end --> in DESIGN.md from /verif/evidence/*.json."""
import json, glob, os, re
root = os.path.join(os.path.dirname(os.path.abspath(__file__)), '..')
rows = ["| id | tier / seed | cases | evaluations | distinct | inconclusive | race detector | wall | largest counters |", "|---|---|---|---|---|---|---|---|---|"]
for f in sorted(glob.glob(os.path.join(root, 'evidence', 'C*.json'))):
    d = json.load(open(f)); c = d['coverage']
    top = sorted(((v, k) for k, v in c['counters'].items() if k not in ('race_reports',)), reverse=True)[:6]
    rows.append(f"| {d['property_id']} | {d['tier']} / {d['seed']} | {c['cases']} | {c['evaluations']:,} | {c['distinct_nontrivial']:,} | {c['inconclusive_cases']} | {'yes' if c.get('race_detector') else 'no'} | {d['wall_s']:.1f} s | " + ", ".join(f"{k} {v:,}" for v, k in top) + " |")
block = "<!-- measured:begin -->\n" + "\n".join(rows) + "\n<!-- measured:end -->"
p = os.path.join(root, 'DESIGN.md')
s = open(p).read()
if '<!-- measured:begin -->' in s:
    s = re.sub(r'<!-- measured:begin -->.*?<!-- measured:end -->', lambda m: block, s, flags=re.S)
else:
    raise SystemExit('markers missing')
open(p, 'w').write(s)
print('rows', len(rows) - 2)
