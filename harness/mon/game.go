package mon

import (
	"fmt"
	"math/rand"

	"github.com/herohde/morlock/pkg/board"

	"verif/adapt"
	"verif/fw"
	"verif/gen"
	"verif/ref"
)

// track is one game board under test in lock-step with the reference game.
type track struct {
	id    int
	zt    *board.ZobristTable
	b     *board.Board
	g     *ref.Game
	snaps []adapt.Snap // snapshot before each push still on the stack (index = ply)
	evs   []ref.Event  // event of each push still on the stack
	base  int          // do not pop below this many moves (fork point)
	last  adapt.Snap   // last observed snapshot (isolation check)
	// sticky set of draw reasons that have been applicable in the current line
	lineDrawn func() bool
}

func newTrack(id int, zt *board.ZobristTable, start ref.Pos) (*track, error) {
	b, err := adapt.Board(zt, start)
	if err != nil {
		return nil, err
	}
	t := &track{id: id, zt: zt, b: b, g: ref.NewGame(start)}
	t.last = adapt.TakeSnap(b)
	return t, nil
}

func (t *track) drawnInLine() bool {
	for _, e := range t.evs {
		if e.Drawn {
			return true
		}
	}
	return false
}

type gameFlags struct {
	results bool // C05 oracle
	hash    bool // C07 oracle
	history bool // C08 oracle
}

// heldPos is a position handed out by a board earlier in the session, with the value it had then.
type heldPos struct {
	ptr  *board.Position
	val  posView
	when string
}

// posView is what a position reports through its API (not its representation, which may hold caches).
type posView struct {
	pieces [2][6]board.Bitboard
	all    board.Bitboard
	rights board.Castling
	ep     board.Square
	hasEP  bool
}

func viewOf(p *board.Position) posView {
	var v posView
	for ci, col := range []board.Color{board.White, board.Black} {
		for pi, pc := range board.AllPieces {
			v.pieces[ci][pi] = p.Piece(col, pc)
		}
	}
	v.all = p.All()
	v.rights = p.Castling()
	v.ep, v.hasEP = p.EnPassant()
	return v
}

type gameMon struct {
	c      *fw.Ctx
	fl     gameFlags
	tracks []*track
	held   []heldPos // positions obtained from Board.Position() and kept (as evaluators, forks and callers do)
	// C07: global maps for this zobrist seed
	keyHash map[string]board.ZobristHash
	hashKey map[board.ZobristHash]string
}

func newGameMon(c *fw.Ctx, fl gameFlags) *gameMon {
	return &gameMon{c: c, fl: fl, keyHash: map[string]board.ZobristHash{}, hashKey: map[board.ZobristHash]string{}}
}

func (gm *gameMon) desc(t *track) string {
	h := gen.Hist{Start: t.g.Start, Moves: t.g.Moves}
	ms := h.MoveStrs()
	if len(ms) > 40 {
		ms = append([]string{"..."}, ms[len(ms)-40:]...)
	}
	return fmt.Sprintf("track %d start %q moves %v", t.id, t.g.Start.FEN(), ms)
}

// observe runs the state oracles on a track after an operation on it.
func (gm *gameMon) observe(t *track, op string) {
	c := gm.c
	b := t.b
	// position agrees with the reference game
	cur := adapt.RefOfBoard(b)
	if cur.Key() != t.g.Cur.Key() {
		c.Violate("game:position", "after %s board position %q differs from the rules' %q: %s", op, cur.Key(), t.g.Cur.Key(), gm.desc(t))
		return
	}
	if gm.fl.history && len(gm.held) < 2048 {
		ptr := b.Position()
		gm.held = append(gm.held, heldPos{ptr: ptr, val: viewOf(ptr), when: fmt.Sprintf("track %d after %s at ply %d", t.id, op, b.Ply())})
	}
	if gm.fl.hash {
		c.Eval(1)
		c.Count("hash_checks", 1)
		h := b.Hash()
		scratch := t.zt.Hash(b.Position(), b.Turn())
		if h != scratch {
			c.Violate("hash:incremental", "after %s incremental hash %016x != from-scratch hash %016x: %s", op, uint64(h), uint64(scratch), gm.desc(t))
		}
		key := cur.Key()
		if prev, ok := gm.keyHash[key]; ok && prev != h {
			c.Violate("hash:path", "same position %q reached with different hashes %016x and %016x: %s", key, uint64(prev), uint64(h), gm.desc(t))
		}
		gm.keyHash[key] = h
		if prev, ok := gm.hashKey[h]; ok && prev != key {
			c.Violate("hash:collision", "different positions %q and %q share hash %016x", prev, key, uint64(h))
		}
		gm.hashKey[h] = key
		c.Distinct(key)
	}
}

// isolation checks that no other track changed.
func (gm *gameMon) isolation(except *track, op string) {
	if !gm.fl.history {
		return
	}
	for _, o := range gm.tracks {
		if o == except {
			continue
		}
		s := adapt.TakeSnap(o.b)
		gm.c.Eval(1)
		if d := s.Diff(o.last); d != "" {
			on := -1
			if except != nil {
				on = except.id
			}
			gm.c.Violate("history:isolation", "%s on track %d changed track %d: %s; %s", op, on, o.id, d, gm.desc(o))
			o.last = s
		}
	}
}

// push plays a legal oracle move.
func (gm *gameMon) push(t *track, m ref.Move) bool {
	c := gm.c
	before := adapt.TakeSnap(t.b)
	bm, ok := adapt.FindB(t.b.Position(), t.b.Turn(), m)
	if !ok || !t.b.PushMove(bm) {
		c.Violate("game:push-refused", "legal move %v refused: %s", m, gm.desc(t))
		return false
	}
	ev := t.g.Push(m)
	t.snaps = append(t.snaps, before)
	t.evs = append(t.evs, ev)
	gm.observe(t, "push "+m.String())
	after := adapt.TakeSnap(t.b)
	t.last = after
	c.Count("pushes", 1)

	if gm.fl.results {
		c.Eval(1)
		if got := t.b.NoProgress(); got != ev.Clock {
			c.Violate("result:clock", "after %v the board counts %d half-moves without pawn move or capture, the rules %d: %s", m, got, ev.Clock, gm.desc(t))
		}
		res := t.b.Result()
		drawn := res.Outcome == board.Draw
		lineDrawn := t.drawnInLine()
		if ev.Drawn && !drawn {
			why := ""
			switch {
			case ev.Count >= 3:
				why = fmt.Sprintf("position occurred %d times", ev.Count)
				c.Count("missed_repetition", 1)
			case ev.Clock >= 100:
				why = fmt.Sprintf("half-move clock %d", ev.Clock)
			default:
				why = "insufficient material"
			}
			key := "result:missed-repetition"
			if ev.Count < 3 {
				if ev.Clock >= 100 {
					key = "result:missed-fifty"
				} else {
					key = "result:missed-insufficient"
				}
			}
			c.Violate(key, "not reported drawn although %s (result %v): %s", why, res, gm.desc(t))
		}
		if !lineDrawn && drawn {
			c.Violate("result:false-draw", "reported %v although nothing has happened (count %d, clock %d, material %s): %s", res, ev.Count, ev.Clock, t.g.Cur.Placement(), gm.desc(t))
		}
		if ev.Drawn && drawn {
			// reason discipline: five-fold must be named from the fifth time (when no other rule applies at this ply)
			if ev.Count >= 5 && ev.Clock < 100 && !ev.Insufficient && res.Reason != board.Repetition5 {
				c.Violate("result:fivefold-name", "fifth occurrence reported as %q: %s", res.Reason, gm.desc(t))
			}
			if ev.Count >= 3 && ev.Count < 5 && ev.Clock < 100 && !ev.Insufficient && res.Reason != board.Repetition3 && res.Reason != board.Repetition5 {
				// Repetition5 tolerated if an earlier fivefold of another position is still recorded
				c.Violate("result:reason", "threefold reported as %q: %s", res.Reason, gm.desc(t))
			}
		}
		// coverage bookkeeping
		if ev.Drawn {
			first := true
			for _, e := range t.evs[:len(t.evs)-1] {
				if e.Drawn {
					first = false
				}
			}
			switch {
			case ev.Count >= 5:
				c.Count("ev_fivefold", 1)
			case ev.Count >= 3:
				c.Count("ev_threefold", 1)
				if t.g.Cur.Key() == t.g.Start.Key() {
					c.Count("ev_threefold_of_start", 1)
				}
			}
			if ev.Clock >= 100 {
				c.Count("ev_clock100", 1)
				if first {
					c.Count("ev_clock100_first", 1)
					if m.Kind == ref.KCastleK || m.Kind == ref.KCastleQ {
						c.Count("ev_clock100_by_castling", 1)
					}
					if t.g.Start.Half >= 100 {
						c.Count("ev_clock_beyond_100_at_setup", 1)
					}
					if t.g.Start.Half > 0 {
						c.Count("ev_clock100_first_from_fen_clock", 1)
					}
				}
			}
			if ev.Insufficient {
				c.Count("ev_insufficient", 1)
				if first {
					c.Count("ev_insufficient_first", 1)
				}
				for _, pm := range t.g.Moves {
					if pm.Kind == ref.KEnPassant {
						c.Count("ev_insufficient_after_ep", 1)
						break
					}
				}
			}
			if ev.Count >= 3 && first {
				c.Count("ev_repetition_first", 1)
				if len(t.g.Moves) > t.base && t.base > 0 {
					c.Count("ev_repetition_first_after_fork", 1)
				}
				// did the first occurrence directly follow an irreversible move (clock 0)?
				if ev.Clock >= 0 {
					idx := firstOccurrence(t.g)
					if idx > 0 {
						fm := t.g.Moves[idx-1]
						if fm.Kind != ref.KNormal {
							c.Count("ev_rep_first_occ_after_irreversible", 1)
							if fm.Kind == ref.KCastleK || fm.Kind == ref.KCastleQ {
								c.Count("ev_rep_first_occ_after_castling", 1)
							}
						}
					} else if idx == 0 {
						c.Count("ev_rep_first_occ_is_start", 1)
					}
				}
			}
		} else if m.Kind == ref.KCapture && !lineDrawn {
			// near misses: few pieces left but sufficient
			n := 0
			for _, v := range t.g.Cur.B {
				if v != 0 {
					n++
				}
			}
			if n <= 4 {
				c.Count("near_miss_material", 1)
			}
		}
	}
	gm.isolation(t, "push")
	return true
}

// firstOccurrence returns the index (0 = start position) of the first occurrence of the current position.
func firstOccurrence(g *ref.Game) int {
	key := g.Cur.Key()
	p := g.Start
	if p.Key() == key {
		return 0
	}
	for i, m := range g.Moves {
		p = p.Apply(m)
		if p.Key() == key {
			return i + 1
		}
	}
	return -1
}

// pushIllegal offers a pseudo-legal but illegal move; it must be refused without any effect.
func (gm *gameMon) pushIllegal(t *track) {
	c := gm.c
	legal := map[adapt.MoveTuple]bool{}
	for _, m := range t.g.Cur.LegalMoves() {
		legal[adapt.TupleOfR(m)] = true
	}
	before := adapt.TakeSnap(t.b)
	for _, bm := range t.b.Position().PseudoLegalMoves(t.b.Turn()) {
		if legal[adapt.TupleOfB(bm)] {
			continue
		}
		c.Eval(1)
		c.Count("illegal_pushes", 1)
		if t.b.PushMove(bm) {
			c.Violate("history:illegal-accepted", "illegal move %v accepted: %s", adapt.TupleOfB(bm), gm.desc(t))
			t.b.PopMove()
		}
		if d := adapt.TakeSnap(t.b).Diff(before); d != "" {
			c.Violate("history:illegal-effect", "refused move %v changed the board: %s; %s", adapt.TupleOfB(bm), d, gm.desc(t))
		}
		break
	}
}

// pop takes back one move (never below the fork base).
func (gm *gameMon) pop(t *track) bool {
	c := gm.c
	n := len(t.g.Moves)
	if n <= t.base {
		if n == 0 {
			// popping at the root must fail and change nothing
			before := adapt.TakeSnap(t.b)
			if _, ok := t.b.PopMove(); ok {
				c.Violate("history:pop-root", "PopMove succeeded on a board without moves: %s", gm.desc(t))
			}
			if d := adapt.TakeSnap(t.b).Diff(before); d != "" {
				c.Violate("history:pop-root", "failed PopMove changed the board: %s", d)
			}
			c.Count("pop_at_root", 1)
		}
		return false
	}
	want := t.g.Moves[n-1]
	bm, ok := t.b.PopMove()
	if !ok {
		c.Violate("history:pop-refused", "PopMove refused with %d moves on the stack: %s", n, gm.desc(t))
		return false
	}
	if adapt.TupleOfB(bm) != adapt.TupleOfR(want) {
		c.Violate("history:pop-move", "PopMove returned %v, the move played was %v: %s", adapt.TupleOfB(bm), want, gm.desc(t))
	}
	t.g.Pop()
	snap := t.snaps[len(t.snaps)-1]
	t.snaps = t.snaps[:len(t.snaps)-1]
	t.evs = t.evs[:len(t.evs)-1]
	c.Count("pops", 1)
	switch want.Kind {
	case ref.KCastleK, ref.KCastleQ:
		c.Count("pop_castle", 1)
	case ref.KEnPassant:
		c.Count("pop_ep", 1)
	case ref.KPromotion, ref.KCapturePromotion:
		c.Count("pop_promotion", 1)
	case ref.KCapture:
		c.Count("pop_capture", 1)
	}
	now := adapt.TakeSnap(t.b)
	if gm.fl.history {
		c.Eval(1)
		if d := now.DiffNoResult(snap); d != "" {
			c.Violate("history:pop-restore", "after taking back %v: %s; %s", want, d, gm.desc(t))
		}
		if snap.Outcome != board.Draw && now.Outcome == board.Draw {
			c.Violate("history:pop-result", "result was %v before the move and is drawn after taking it back: %s", snap.Outcome, gm.desc(t))
		}
		if snap.Outcome == board.Undecided && now.Outcome != board.Undecided {
			c.Violate("history:pop-result", "result was undecided before the move and is %v/%v after taking it back: %s", now.Outcome, now.Reason, gm.desc(t))
		}
	}
	t.last = now
	gm.observe(t, "pop "+want.String())
	gm.isolation(t, "pop")
	return true
}

// fork branches a track. Neither side may pop below the fork point afterwards.
func (gm *gameMon) fork(t *track) *track {
	n := &track{id: len(gm.tracks), zt: t.zt, b: t.b.Fork(), g: t.g.Clone(), base: len(t.g.Moves)}
	n.snaps = append([]adapt.Snap(nil), t.snaps...)
	n.evs = append([]ref.Event(nil), t.evs...)
	if t.base < n.base {
		t.base = n.base
	}
	n.last = adapt.TakeSnap(n.b)
	gm.c.Count("forks", 1)
	if gm.fl.history {
		gm.c.Eval(1)
		if d := n.last.Diff(t.last); d != "" {
			gm.c.Violate("history:fork-differs", "fork reports a different state than its origin: %s; %s", d, gm.desc(t))
		}
	}
	gm.tracks = append(gm.tracks, n)
	gm.observe(n, "fork")
	gm.isolation(n, "fork")
	return n
}

// heldUnchanged: a position a board handed out is a value; whatever is played or taken back later, on that
// board or on a fork, it must still read as it did.
func (gm *gameMon) heldUnchanged() {
	for i, h := range gm.held {
		gm.c.Eval(1)
		if now := viewOf(h.ptr); now != h.val {
			gm.c.Violate("history:position-mutated", "the position handed out by Board.Position() (%s) now reads differently: %q (pieces/rights/e.p. then %v, now %v): %s", h.when, h.ptr.String(), h.val, now, gm.desc(gm.tracks[0]))
			gm.held[i].val = now
			break
		}
	}
	gm.c.Count("held_positions_checked", len(gm.held))
}

// scratchCompare rebuilds the track's line on a fresh board and compares (C08: play continues identically).
func (gm *gameMon) scratchCompare(t *track) {
	c := gm.c
	gm.heldUnchanged()
	s, err := adapt.Board(t.zt, t.g.Start)
	if err != nil {
		return
	}
	for _, m := range t.g.Moves {
		if !adapt.Push(s, m) {
			return
		}
	}
	a, b := adapt.TakeSnap(t.b), adapt.TakeSnap(s)
	c.Eval(1)
	c.Count("scratch_compares", 1)
	var d string
	if t.drawnInLine() {
		d = a.DiffNoResult(b) // draw flags are sticky on the scratch board, while take-back may legitimately have cleared them
	} else {
		d = a.Diff(b)
	}
	if d != "" {
		c.Violate("history:scratch", "board after play/take-back/fork differs from the same line set up from scratch: %s; %s", d, gm.desc(t))
	}
}

// adjudicate checks AdjudicateNoLegalMoves on a fork of a move-less position.
func (gm *gameMon) adjudicate(t *track) {
	c := gm.c
	f := t.b.Fork()
	res := f.AdjudicateNoLegalMoves()
	c.Eval(1)
	mover := t.g.Cur.White
	if t.g.Cur.InCheck(mover) {
		c.Count("adjudicated_mate", 1)
		want := board.Loss(adapt.BColor(mover))
		if res.Outcome != want || res.Reason != board.Checkmate {
			c.Violate("result:adjudicate-mate", "checkmated side to move adjudicated as %v: %s", res, gm.desc(t))
		}
	} else {
		c.Count("adjudicated_stalemate", 1)
		if res.Outcome != board.Draw || res.Reason != board.Stalemate {
			c.Violate("result:adjudicate-stalemate", "stalemate adjudicated as %v: %s", res, gm.desc(t))
		}
	}
	if f.Result() != res {
		c.Violate("result:adjudicate-store", "Result() %v differs from the adjudication %v", f.Result(), res)
	}
}

// runGame drives one randomised session of push / pop / fork operations.
type gameOpts struct {
	plies     int
	bias      gen.Bias
	popProb   float64
	forkProb  float64
	illegal   float64
	maxTracks int
	scratch   float64
}

func (gm *gameMon) runGame(r *rand.Rand, zt *board.ZobristTable, start ref.Pos, o gameOpts) {
	t0, err := newTrack(0, zt, start)
	if err != nil {
		gm.c.Violate("game:newboard", "cannot build board for %s: %v", start.FEN(), err)
		return
	}
	gm.tracks = []*track{t0}
	gm.observe(t0, "setup")
	gm.continueGame(r, o)
}

// queries calls the read-only part of the board and position API on a track (any of its users may do so at
// any time: evaluators, move filters, drivers). The answers about check and mate are compared with the
// rules, and nothing any board reports may change.
func (gm *gameMon) queries(t *track, r *rand.Rand) {
	c := gm.c
	before := adapt.TakeSnap(t.b)
	pos := t.b.Position()
	turn := t.b.Turn()
	white := t.g.Cur.White
	nLegal := len(t.g.Cur.LegalMoves())
	inCheck := t.g.Cur.InCheck(white)
	for k := 0; k < 1+r.Intn(3); k++ {
		switch r.Intn(10) {
		case 0:
			if got := pos.IsChecked(turn); got != inCheck {
				c.Violate("query:ischecked", "IsChecked(%v) = %v, the rules say %v: %s", turn, got, inCheck, gm.desc(t))
			}
			pos.IsChecked(turn.Opponent())
		case 1:
			if got := pos.IsCheckMate(turn); got != (inCheck && nLegal == 0) {
				c.Violate("query:ischeckmate", "IsCheckMate(%v) = %v with %d legal moves, in check %v: %s", turn, got, nLegal, inCheck, gm.desc(t))
			}
			pos.IsCheckMate(turn.Opponent())
		case 2:
			if got := len(pos.LegalMoves(turn)); got != nLegal {
				c.Violate("query:legalmoves", "LegalMoves(%v) lists %d moves, the rules %d: %s", turn, got, nLegal, gm.desc(t))
			}
		case 3:
			pos.PseudoLegalMoves(turn)
			pos.PseudoLegalMoves(turn.Opponent())
		case 4:
			sq := board.Square(r.Intn(64))
			pos.IsAttacked(board.White, sq)
			pos.IsDefended(board.Black, sq)
			pos.Square(sq)
			pos.IsEmpty(sq)
		case 5:
			pos.HasInsufficientMaterial()
			_ = pos.String()
			pos.Rotated()
			pos.Castling()
			pos.EnPassant()
		case 6:
			pos.KingSquare(turn)
			pos.PieceSquares(turn, board.Pawn)
			pos.All()
			pos.Color(turn.Opponent())
		case 7:
			t.b.LastMove()
			t.b.SecondToLastMove()
			t.b.HasMoved(1 + r.Intn(20))
			t.b.HasCastled(turn)
		case 8:
			_ = t.b.String()
			t.b.Result()
			t.b.Hash()
			t.b.NoProgress()
		default:
			// a would-be successor is computed and dropped (what a search does before PushMove)
			for _, m := range pos.PseudoLegalMoves(turn) {
				if np, ok := pos.Move(m); ok {
					np.IsChecked(turn.Opponent())
					break
				}
			}
		}
	}
	c.Eval(1)
	c.Count("query_rounds", 1)
	if d := adapt.TakeSnap(t.b).Diff(before); d != "" {
		c.Violate("query:not-read-only", "read-only queries changed what the board reports: %s; %s", d, gm.desc(t))
	}
	gm.isolation(nil, "queries")
}

// continueGame runs the randomised session on the tracks already set up.
func (gm *gameMon) continueGame(r *rand.Rand, o gameOpts) {
	probing := r.Intn(2) == 0 // half of the sessions also use the read-only API between the operations
	for step := 0; step < o.plies; step++ {
		t := gm.tracks[r.Intn(len(gm.tracks))]
		if probing && r.Intn(2) == 0 {
			gm.queries(gm.tracks[r.Intn(len(gm.tracks))], r)
		}
		x := r.Float64()
		switch {
		case x < o.popProb:
			k := 1
			if r.Intn(4) == 0 {
				k = 1 + r.Intn(12)
			}
			for i := 0; i < k; i++ {
				if !gm.pop(t) {
					break
				}
			}
		case x < o.popProb+o.forkProb && len(gm.tracks) < o.maxTracks:
			gm.fork(t)
		default:
			ms := t.g.Cur.LegalMoves()
			if len(ms) == 0 {
				if gm.fl.results {
					gm.adjudicate(t)
				}
				if !gm.pop(t) {
					if len(gm.tracks) == 1 {
						return
					}
				}
				continue
			}
			if o.illegal > 0 && r.Float64() < o.illegal {
				gm.pushIllegal(t)
			}
			var prev *ref.Move
			if n := len(t.g.Moves); n >= 2 {
				prev = &t.g.Moves[n-2]
			}
			m := gen.Pick(r, &t.g.Cur, ms, o.bias, prev)
			if !gm.push(t, m) {
				return
			}
		}
		if o.scratch > 0 && r.Float64() < o.scratch {
			gm.scratchCompare(t)
		}
	}
	if gm.fl.history {
		for _, t := range gm.tracks {
			gm.scratchCompare(t)
		}
	}
}
