package mon

import (
	"fmt"
	"math/rand"
	"strings"
	"time"

	"github.com/herohde/morlock/pkg/engine"

	"verif/fw"
	"verif/gen"
	"verif/ref"
)

// C04 — UCI: every go is answered by exactly one legal bestmove.

func recipeOptions(r *rand.Rand, rc *recipe) (engine.Options, int) {
	switch rc.name {
	case "morlock":
		h := []uint{0, 1, 1, 1, 4}[r.Intn(5)]
		return engine.Options{Hash: h, Noise: []uint{0, 0, 50}[r.Intn(3)]}, 3
	case "turochamp":
		return engine.Options{Depth: uint(1 + r.Intn(2)), Noise: []uint{0, 10}[r.Intn(2)]}, 2
	case "sargon":
		return engine.Options{Depth: uint(1 + r.Intn(3)), Noise: []uint{0, 10}[r.Intn(2)]}, 3
	default:
		return engine.Options{Depth: uint(2 + r.Intn(3)), Noise: 0}, 3
	}
}

// specialGame returns a game (start + moves) ending in a named kind of position.
func specialGame(r *rand.Rand, kind int) (ref.Pos, []ref.Move, string) {
	starts := gen.Starts()
	switch kind % 10 {
	case 0:
		if h, ok := terminalRoot(r, true); ok {
			return h.Start, h.Moves, "mate"
		}
	case 1:
		if h, ok := terminalRoot(r, false); ok {
			return h.Start, h.Moves, "stalemate"
		}
	case 2: // claimable threefold: shuffle until the oracle counts three
		for try := 0; try < 20; try++ {
			g := ref.NewGame(starts[[]int{0, 6, 25, 26}[r.Intn(4)]])
			for i := 0; i < 60; i++ {
				ms := g.Cur.LegalMoves()
				if len(ms) == 0 {
					break
				}
				var prev *ref.Move
				if n := len(g.Moves); n >= 2 {
					prev = &g.Moves[n-2]
				}
				ev := g.Push(gen.Pick(r, &g.Cur, ms, gen.Shuffly, prev))
				if ev.Count >= 3 && len(g.Cur.LegalMoves()) > 0 {
					return g.Start, g.Moves, "claimable-threefold"
				}
			}
		}
	case 3: // clock at or beyond 100
		p := gen.TacticOK(r, 8+r.Intn(2))
		p.Half = 98 + r.Intn(3)
		h := gen.Playout(r, p, 2+r.Intn(3), gen.NoProgress)
		return h.Start, h.Moves, "clock>=100"
	case 4: // insufficient material on the board
		p := ref.MustFEN([]string{"8/8/4k3/8/8/3B4/8/4K3 w - - 0 1", "8/8/4k3/8/8/8/8/4K3 b - - 10 40", "8/8/4k3/8/8/3N4/8/4K3 b - - 3 9"}[r.Intn(3)])
		return p, nil, "insufficient-material"
	case 5: // single legal move
		for try := 0; try < 3000; try++ {
			p := gen.TacticOK(r, r.Intn(gen.NumTactics))
			if len(p.LegalMoves()) == 1 {
				return p, nil, "single-legal-move"
			}
		}
	case 6:
		p := starts[r.Intn(len(starts))]
		h := gen.Playout(r, p, r.Intn(30), gen.Biases[r.Intn(len(gen.Biases))])
		return h.Start, h.Moves, "fen+moves"
	case 9: // the position has occurred five times (or more): both sides shuttle a piece out and back
		for try := 0; try < 40; try++ {
			h := gen.Playout(r, starts[r.Intn(len(starts))], r.Intn(12), gen.Neutral)
			g := ref.NewGameFrom(h.Start, h.Moves)
			reverse := func(m ref.Move) (ref.Move, bool) {
				for _, x := range g.Cur.LegalMoves() {
					if x.From == m.To && x.To == m.From && x.Capture == 0 {
						return x, true
					}
				}
				return ref.Move{}, false
			}
			quiet := func() (ref.Move, bool) {
				ms := g.Cur.LegalMoves()
				for _, i := range r.Perm(len(ms)) {
					if m := ms[i]; m.Capture == 0 && m.Piece != ref.Pawn && m.Kind == ref.KNormal {
						return m, true
					}
				}
				return ref.Move{}, false
			}
			m1, ok1 := quiet()
			if !ok1 {
				continue
			}
			g.Push(m1)
			m2, ok2 := quiet()
			if !ok2 {
				continue
			}
			g.Push(m2)
			b1, ok3 := reverse(m1)
			if !ok3 {
				continue
			}
			g.Push(b1)
			b2, ok4 := reverse(m2)
			if !ok4 {
				continue
			}
			ev := g.Push(b2)
			cycle := []ref.Move{m1, m2, b1, b2}
			for n := 0; n < 24 && ev.Count < 5 && ev.Clock < 100; n++ {
				ev = g.Push(cycle[n%4])
			}
			if ev.Count < 5 || len(g.Cur.LegalMoves()) == 0 {
				continue
			}
			for k := r.Intn(3); k > 0; k-- { // sometimes the game goes on after the five-fold
				if ms := g.Cur.LegalMoves(); len(ms) > 0 {
					g.Push(ms[r.Intn(len(ms))])
				}
			}
			if len(g.Cur.LegalMoves()) == 0 {
				continue
			}
			return g.Start, g.Moves, "fivefold"
		}
	case 7:
		if r.Intn(2) == 0 {
			if p, ok := gen.BoxedKing(r); ok {
				return p, nil, "boxed-king"
			}
		}
		h := gen.Playout(r, gen.SynthOK(r), r.Intn(6), gen.Neutral)
		return h.Start, h.Moves, "synthetic"
	}
	h := gen.Playout(r, starts[0], r.Intn(40), gen.Biases[r.Intn(len(gen.Biases))])
	return h.Start, h.Moves, "startpos+moves"
}

// moverClock extracts the clock of the side to move from a go line.
func moverClock(cmd string, white bool) (int, bool) {
	f := strings.Fields(cmd)
	key := "btime"
	if white {
		key = "wtime"
	}
	for i := 0; i+1 < len(f); i++ {
		if f[i] == key {
			v := 0
			if _, err := fmt.Sscan(f[i+1], &v); err == nil {
				return v, true
			}
		}
	}
	return 0, false
}

// deepestInfo returns the largest depth among the info lines from position from on.
func deepestInfo(s *uciSession, from int) int {
	s.mu.Lock()
	defer s.mu.Unlock()
	best := 0
	for _, l := range s.lines[from:] {
		f := strings.Fields(l)
		for i := 0; i+1 < len(f); i++ {
			if f[0] == "info" && f[i] == "depth" {
				d := 0
				fmt.Sscan(f[i+1], &d)
				if d > best {
					best = d
				}
			}
		}
	}
	return best
}

type goOutcome struct {
	bestmoves []string
	answered  bool
}

// closeGo waits for the answer to a go (stopping it if the variant requires) and returns the bestmoves
// emitted between the go and the readyok that closes the exchange.
func closeGo(s *uciSession, mark int, selfEnding bool, delay time.Duration) ([]string, bool) {
	if !selfEnding {
		time.Sleep(delay)
		s.send("stop")
	}
	_, _, ok := s.waitLine(mark, isBestmove, uciWatchdog)
	if !ok && selfEnding {
		// a search that should have ended by itself has not: stop it; the answer is still owed
		s.send("stop")
		_, _, ok = s.waitLine(mark, isBestmove, uciWatchdog)
	}
	end, synced := s.sync()
	if !synced {
		return nil, false
	}
	return s.bestmovesBetween(mark, end), true
}

func c04Session(c *fw.Ctx, r *rand.Rand, idx int) {
	rc := &recipes[r.Intn(len(recipes))]
	opts, maxDepth := recipeOptions(r, rc)
	useBook := rc.book != nil && r.Intn(2) == 0
	s := newUCISession(rc, opts, 0, useBook, r.Int63(), false)
	what := func() string {
		return fmt.Sprintf("engine %s options %v book %v: %s", rc.name, opts, useBook, s.transcript(24))
	}
	if _, ok := s.sync(); !ok {
		c.Violate("uci:no-readyok", "no readyok after start-up: %s", what())
		return
	}
	if r.Intn(3) == 0 {
		s.send(fmt.Sprintf("setoption name Hash value %d", []int{0, 1, 2}[r.Intn(3)]))
	}
	lastReady := s.mark()
	steps := 3 + r.Intn(5)
	var start ref.Pos
	var moves []ref.Move
	tag := ""
	for step := 0; step < steps; step++ {
		// position: fresh, or a continuation of the previous game
		if step == 0 || r.Intn(3) != 0 || len(ref.NewGameFrom(start, moves).Cur.LegalMoves()) == 0 {
			start, moves, tag = specialGame(r, r.Intn(10)+idx)
			if r.Intn(4) == 0 {
				s.send("ucinewgame")
			}
		} else {
			g := ref.NewGameFrom(start, moves)
			for k := 0; k < 1+r.Intn(2); k++ {
				ms := g.Cur.LegalMoves()
				if len(ms) == 0 {
					break
				}
				m := ms[r.Intn(len(ms))]
				g.Push(m)
				moves = append(moves, m)
			}
			tag = "continuation"
		}
		cur := ref.NewGameFrom(start, moves).Cur
		s.send(positionCmd(start, moves, true))
		c.Count("pos_"+tag, 1)
		if r.Intn(8) == 0 && len(cur.LegalMoves()) > 0 {
			// the same position as a bare FEN, then the same FEN with some men recoloured: the second line
			// differs from the first only in the case of letters, yet it is another position
			base := cur
			if flipped, ok := flipSomeColours(r, base); ok && len(flipped.LegalMoves()) > 0 {
				s.send(positionCmd(base, nil, false))
				start, moves, tag = flipped, nil, "recoloured-fen"
				cur = flipped
				s.send(positionCmd(flipped, nil, false))
				c.Count("pos_"+tag, 1)
			}
		}

		reps := 1
		if r.Intn(6) == 0 {
			reps = 2 // the same go twice on one position (table reuse)
		}
		for rep := 0; rep < reps; rep++ {
			var cmd string
			selfEnding := true
			delay := time.Duration(r.Intn(12)) * time.Millisecond
			variant := r.Intn(10)
			if variant == 9 {
				variant = 8 // odd clocks twice as often
			}
			switch variant {
			case 0, 1:
				cmd = fmt.Sprintf("go depth %d", 1+r.Intn(maxDepth))
			case 2:
				cmd = fmt.Sprintf("go movetime %d", 3+r.Intn(30))
			case 3:
				cmd = fmt.Sprintf("go wtime %d btime %d", 30+r.Intn(300), 30+r.Intn(300))
				if r.Intn(2) == 0 {
					cmd += fmt.Sprintf(" movestogo %d", 1+r.Intn(40))
				}
				if r.Intn(3) == 0 {
					cmd += " winc 10 binc 10"
				}
			case 8:
				// used-up, overdrawn and one-sided clocks: the go is still owed its bestmove
				odd := []int{0, 0, -1, -150, 1, 2, 30000}
				switch r.Intn(4) {
				case 0:
					cmd = fmt.Sprintf("go wtime %d btime %d", odd[r.Intn(len(odd))], odd[r.Intn(len(odd))])
				case 1:
					cmd = fmt.Sprintf("go wtime %d", 20+r.Intn(100)) // only White's clock given
				case 2:
					cmd = fmt.Sprintf("go btime %d", 20+r.Intn(100)) // only Black's clock given
				default:
					cmd = fmt.Sprintf("go wtime %d btime %d movestogo %d", odd[r.Intn(len(odd))], odd[r.Intn(len(odd))], r.Intn(3))
				}
			case 4:
				cmd, selfEnding = "go infinite", false
			case 5:
				cmd = "go"
				selfEnding = opts.Depth > 0
			case 6:
				cmd = fmt.Sprintf("go depth %d movetime %d", 1+r.Intn(maxDepth), 20+r.Intn(100))
			default:
				cmd = fmt.Sprintf("go infinite movetime %d", 5+r.Intn(25))
			}
			// late duplicates from earlier searches must not appear
			if late := s.bestmovesBetween(lastReady, s.mark()); len(late) > 0 {
				c.Violate("uci:late-bestmove", "bestmove %v appeared after its exchange was closed: %s", late, what())
			}
			mark := s.send(cmd)
			bms, synced := closeGo(s, mark, selfEnding, delay)
			if variant == 8 && synced {
				// the mover's clock as sent: when it is used up (<= 0) the search ends with the first iteration
				// or two; deeper iterations reported for such a go mean the clock was not applied at all
				// (only where an iteration takes real time: a position without moves, or with a handful, runs
				// through many depths before the expired timer's goroutine is even scheduled)
				if left, given := moverClock(cmd, cur.White); given && left <= 0 && opts.Depth == 0 && len(cur.LegalMoves()) >= 15 {
					c.Count("used_up_clock_gos", 1)
					if d := deepestInfo(s, mark); d > 6 {
						c.Violate("uci:clock-ignored", "%q with %d ms on the mover's clock: the search went on to depth %d: %s", cmd, left, d, what())
					}
				}
			}
			c.Eval(1)
			c.Count("gos", 1)
			c.Count("go_variant_"+fmt.Sprint(variant), 1)
			if !synced {
				c.Violate("uci:no-readyok", "isready unanswered after %q: %s\n%s", cmd, what(), stacks())
				s.shutdown(true)
				return
			}
			lastReady = s.mark()
			switch len(bms) {
			case 0:
				c.Violate("uci:no-bestmove", "%q (%s position %q) was not answered by a bestmove: %s", cmd, tag, cur.FEN(), what())
			case 1:
				if why, ok := legalBestmove(bms[0], cur); !ok {
					key := "uci:illegal-bestmove"
					if strings.Contains(bms[0], "0000") {
						key = "uci:null-bestmove"
					}
					c.Violate(key, "%q (%s) answered by %q: %s: %s", cmd, tag, bms[0], why, what())
				}
				if strings.Contains(bms[0], "0000") {
					c.Count("null_moves_expected", 1)
				}
			default:
				c.Violate("uci:duplicate-bestmove", "%q answered %d times %v: %s", cmd, len(bms), bms, what())
			}
		}
	}
	// stale movetime timer: a finished search's timer must not halt (or answer for) a later one
	if r.Intn(4) == 0 {
		p := gen.Starts()[0]
		s.send("position startpos")
		m1 := s.send("go depth 1 movetime 120")
		b1, ok1 := closeGo(s, m1, true, 0)
		m2 := s.send("go infinite")
		b2, ok2 := closeGo(s, m2, false, 200*time.Millisecond)
		c.Count("stale_timer_scenarios", 1)
		if ok1 && ok2 {
			if len(b1) != 1 || len(b2) != 1 {
				c.Violate("uci:stale-timer", "go depth 1 movetime 120 / go infinite+stop after 200 ms answered %d and %d times: %s", len(b1), len(b2), what())
			} else if why, ok := legalBestmove(b2[0], p); !ok {
				c.Violate("uci:stale-timer", "go infinite halted by the previous search's movetime timer: %s: %s", why, what())
			}
		}
		lastReady = s.mark()
	}
	s.sync()
	if late := s.bestmovesBetween(lastReady, s.mark()); len(late) > 0 {
		c.Violate("uci:late-bestmove", "bestmove %v appeared after its exchange was closed: %s", late, what())
	}
	end := s.mark()
	if !s.shutdown(r.Intn(2) == 0) {
		c.Violate("uci:shutdown", "output not closed after quit / end of input: %s\n%s", what(), stacks())
		return
	}
	if late := s.bestmovesBetween(end, -1); len(late) > 0 {
		c.Violate("uci:late-bestmove", "bestmove %v appeared at shutdown: %s", late, what())
	}
	c.Count("sessions", 1)
	c.Distinct(s.transcript(1000))
	if idx%64 == 0 {
		c.Sample(map[string]any{"engine": rc.name, "options": fmt.Sprint(opts), "book": useBook, "transcript": s.transcript(14)})
	}
}

func init() {
	fw.Register(&fw.Monitor{
		ID:          "C04",
		Level:       "exploration",
		Race:        true,
		Technique:   "runtime protocol monitor: recorded UCI sessions (driver driven in-process through its channels, race detector on) checked for exactly-once bestmove per go, legality against the rules oracle, and no late duplicates",
		Rule:        "one evaluation = one go exchange: the go is sent, left to end by itself (depth / movetime / clock) or stopped (infinite, bare go on an unlimited engine), then closed by an isready/readyok round trip; bestmove lines between the go and that readyok are counted (exactly 1) and checked against the oracle's legal moves of the position last set up (0000 only without legal move); later bestmoves are late duplicates; sessions = 4 engine recipes x options (hash 0/1/4 MB, noise, depth, own book on/off) x positions (startpos/FEN + moves, continuation, mate, stalemate, claimable threefold, clock >= 100, insufficient material, single legal move, five-fold repetition with and without further moves) x 9 go variants (incl. used-up, negative and one-sided clocks) incl. repeated go and the stale-movetime-timer scenario; distinct = distinct session transcripts",
		Assumptions: []string{"a go the script does not stop is given 60 s before it is stopped by the monitor; the answer is then still owed (decided on the stop/readyok events, not on the time)"},
		Setup:       validateOracle,
		Timeout:     minutes(15, 120),
		Cases: func(tier string, seed int64) []fw.Case {
			return mkCases(nil, "sessions", 64, seed, pick(tier, 4, 80))
		},
		Floors: func(string) map[string]int64 {
			return map[string]int64{"sessions": 150, "gos": 800, "pos_mate": 5, "pos_stalemate": 5, "pos_claimable-threefold": 5, "pos_clock>=100": 5, "pos_single-legal-move": 3, "pos_fivefold": 5, "go_variant_8": 40, "used_up_clock_gos": 1, "pos_continuation": 50, "stale_timer_scenarios": 20, "null_moves_expected": 5}
		},
		Run: func(c *fw.Ctx, cs fw.Case) {
			r := cs.Rand()
			for i := 0; i < cs.N; i++ {
				c04Session(c, r, cs.Idx*1000+i)
			}
		},
	})
}
