package mon

import (
	"bufio"
	"context"
	"fmt"
	"math/rand"
	"os"
	"os/exec"
	"path/filepath"
	"strings"
	"sync"
	"time"

	"github.com/herohde/morlock/pkg/board"
	"github.com/herohde/morlock/pkg/engine"
	"github.com/herohde/morlock/pkg/eval"
	"github.com/herohde/morlock/pkg/search"
	"github.com/herohde/morlock/pkg/search/searchctl"
	"github.com/seekerror/stdlib/pkg/lang"

	"verif/adapt"
	"verif/fw"
	"verif/gen"
	"verif/ref"
)

// C18 — searching is deterministic and never touches the engine's own game.

type searchResult struct {
	score string
	pv    string
	nodes uint64
}

func (a searchResult) diff(b searchResult, nodes bool) string {
	switch {
	case a.score != b.score:
		return fmt.Sprintf("score %s vs %s", a.score, b.score)
	case a.pv != b.pv:
		return fmt.Sprintf("pv [%s] vs [%s]", a.pv, b.pv)
	case nodes && a.nodes != b.nodes:
		return fmt.Sprintf("nodes %d vs %d", a.nodes, b.nodes)
	}
	return ""
}

// scoreStr prints a score canonically: negative zero is zero.
func scoreStr(s eval.Score) string {
	if s.Type == eval.Heuristic {
		s.Pawns += 0 // -0 + 0 = +0
		if s.Pawns == 0 {
			s.Pawns = 0
		}
		return fmt.Sprintf("%g", float32(s.Pawns))
	}
	return s.String()
}

func directSearch(s search.Search, zt *board.ZobristTable, h gen.Hist, depth int) (searchResult, error) {
	b, err := adapt.Board(zt, h.Start)
	if err != nil {
		return searchResult{}, err
	}
	for _, m := range h.Moves {
		if !adapt.Push(b, m) {
			return searchResult{}, fmt.Errorf("push")
		}
	}
	n, sc, pv, err := s.Search(budgetCtx(), fullWindow(), b, depth)
	if err != nil {
		return searchResult{}, err
	}
	return searchResult{score: scoreStr(sc), pv: board.PrintMoves(pv), nodes: n}, nil
}

// analyze drives an engine: set up the game, analyse to the depth limit, return the PV stream.
func analyze(ctx context.Context, e *engine.Engine, h gen.Hist, depth int) ([]searchResult, string, error) {
	return analyzeWith(ctx, e, h, depth, nil)
}

// userActivity plays and takes back moves on a board obtained from Engine.Board() (a fork the API hands
// to its caller) until stop is closed. It never takes back below the fork point.
func userActivity(b *board.Board, stop <-chan struct{}, seed int64) {
	r := rand.New(rand.NewSource(seed))
	depth := 0
	for {
		select {
		case <-stop:
			for ; depth > 0; depth-- {
				b.PopMove()
			}
			return
		default:
		}
		if depth > 0 && (depth >= 6 || r.Intn(3) == 0) {
			b.PopMove()
			depth--
			continue
		}
		ms := b.Position().PseudoLegalMoves(b.Turn())
		if len(ms) == 0 {
			continue
		}
		if b.PushMove(ms[r.Intn(len(ms))]) {
			depth++
			b.LastMove()
			b.HasMoved(4)
		}
	}
}

// analyzeWith is analyze with user-side activity on a fork of the engine's board while the search runs.
func analyzeWith(ctx context.Context, e *engine.Engine, h gen.Hist, depth int, during func(b *board.Board, stop <-chan struct{})) ([]searchResult, string, error) {
	return analyzeHook(ctx, e, h, depth, during, nil)
}

// analyzeHook is analyzeWith with a callback run between setting the game up and starting the analysis
// (what other engines of the process do in that gap must not matter).
func analyzeHook(ctx context.Context, e *engine.Engine, h gen.Hist, depth int, during func(b *board.Board, stop <-chan struct{}), afterSetup func()) ([]searchResult, string, error) {
	if err := e.Reset(ctx, h.Start.FEN()); err != nil {
		return nil, "", err
	}
	for _, m := range h.Moves {
		if err := e.Move(ctx, m.String()); err != nil {
			return nil, "", err
		}
	}
	if afterSetup != nil {
		afterSetup()
	}
	posBefore := e.Position()
	snapBefore := adapt.TakeSnap(e.Board())
	var stop chan struct{}
	var udone chan struct{}
	if during != nil {
		ub := e.Board()
		stop, udone = make(chan struct{}), make(chan struct{})
		go func() { defer close(udone); during(ub, stop) }()
		defer func() { <-udone }()
		defer close(stop)
	}
	out, err := e.Analyze(ctx, searchctl.Options{DepthLimit: lang.Some(uint(depth))})
	if err != nil {
		return nil, "", err
	}
	var stream []searchResult
	timeout := time.After(120 * time.Second)
loop:
	for {
		select {
		case pv, ok := <-out:
			if !ok {
				break loop
			}
			stream = append(stream, searchResult{score: fmt.Sprintf("d%d:%s", pv.Depth, scoreStr(pv.Score)), pv: board.PrintMoves(pv.Moves), nodes: pv.Nodes})
		case <-timeout:
			e.Halt(ctx)
			return nil, "", fmt.Errorf("watchdog")
		}
	}
	e.Halt(ctx)
	note := ""
	if e.Position() != posBefore {
		note = fmt.Sprintf("Position() changed from %q to %q", posBefore, e.Position())
	} else if d := adapt.TakeSnap(e.Board()).Diff(snapBefore); d != "" {
		note = "engine board changed: " + d
	}
	return stream, note, nil
}

// streamDiff compares two PV streams iteration by iteration. The stream channel has one slot and
// deliberately drops an unread iteration, so iterations are aligned by depth; the final iteration
// is never dropped and must agree.
func streamDiff(a, b []searchResult, nodes bool) string {
	if len(a) == 0 || len(b) == 0 {
		if len(a) != len(b) {
			return fmt.Sprintf("%d vs %d iterations", len(a), len(b))
		}
		return ""
	}
	depthOf := func(r searchResult) string { return r.score[:strings.IndexByte(r.score, ':')] }
	if d := a[len(a)-1].diff(b[len(b)-1], nodes); d != "" {
		return "final iteration: " + d
	}
	bm := map[string]searchResult{}
	for _, r := range b {
		bm[depthOf(r)] = r
	}
	for _, r := range a {
		if o, ok := bm[depthOf(r)]; ok {
			if d := r.diff(o, nodes); d != "" {
				return "iteration " + depthOf(r) + ": " + d
			}
		}
	}
	return ""
}

// detour extends a history by four reversible plies that return to the same position (same key).
func detour(r *rand.Rand, h gen.Hist) (gen.Hist, bool) {
	p := h.Final()
	key := p.Key()
	for try := 0; try < 60; try++ {
		var ms []ref.Move
		q := p
		okSeq := true
		for k := 0; k < 4 && okSeq; k++ {
			lm := q.LegalMoves()
			var cand []ref.Move
			for _, m := range lm {
				if m.Kind != ref.KNormal {
					continue
				}
				if k >= 2 && !(m.From == ms[k-2].To && m.To == ms[k-2].From) {
					continue
				}
				cand = append(cand, m)
			}
			if len(cand) == 0 {
				okSeq = false
				break
			}
			m := cand[r.Intn(len(cand))]
			ms = append(ms, m)
			q = q.Apply(m)
		}
		if okSeq && q.Key() == key {
			return gen.Hist{Start: h.Start, Moves: append(append([]ref.Move{}, h.Moves...), ms...)}, true
		}
	}
	return h, false
}

func c18Root(r *rand.Rand, i int) (gen.Hist, int) {
	root := searchCorpus(r, i)
	b, ok := boardOf(root.h)
	if !ok {
		return root.h, 1
	}
	n0, n1 := branching(b, 0)
	return root.h, depthFor(n0, n1, 1500, 3)
}

func runC18(c *fw.Ctx, cs fw.Case) {
	r := cs.Rand()
	ctx := context.Background()
	switch cs.Kind {
	case "api":
		for i := 0; i < cs.N; i++ {
			engineAPI(c, r, cs.Idx*1000+i)
		}
	case "manygames":
		// a long-lived engine: the same analysis before and after k other games on the same engine (each a Reset
		// and a short search), for k around the sizes at which a small game / generation counter would wrap
		ks := []int{1, 7, 250, 253, 254, 255, 256, 257, 258, 511, 512, 513}
		if !c.Quick() && cs.Idx%8 == 0 {
			ks = append(ks, 65534, 65535, 65536, 65537)
		}
		rc := &recipes[[]int{0, 0, 3, 2}[cs.Idx%4]]
		opts := engine.Options{Hash: 1, Depth: 1}
		h, depth := c18Root(r, cs.Idx)
		for try := 0; try < 20; try++ {
			if fp := h.Final(); len(fp.LegalMoves()) > 0 {
				break
			}
			h, depth = c18Root(r, cs.Idx+try+1)
		}
		if depth < 2 {
			depth = 2
		}
		var others []gen.Hist
		for j := 0; j < 9; j++ {
			o, _ := c18Root(r, j+1)
			others = append(others, o)
		}
		for _, k := range ks[:min(len(ks), cs.N)] {
			e := rc.newEngine(ctx, opts, 0, nil)
			what := fmt.Sprintf("engine %s hash 1 MB depth %d %s, %d other games in between", rc.name, depth, histDesc(h), k)
			before, _, err := analyze(ctx, e, h, depth)
			if err != nil {
				break
			}
			for j := 0; j < k; j++ {
				o := others[j%len(others)]
				if e.Reset(ctx, o.Start.FEN()) != nil {
					continue
				}
				if out, err := e.Analyze(ctx, searchctl.Options{DepthLimit: lang.Some(uint(1))}); err == nil {
					for range out {
					}
				}
				e.Halt(ctx)
			}
			after, _, err := analyze(ctx, e, h, depth)
			if err != nil {
				break
			}
			c.Eval(1)
			c.Count("manygames_checks", 1)
			c.Count("manygames_resets", k)
			c.Distinct(what)
			if d := streamDiff(before, after, true); d != "" {
				c.Violate("determinism:many-games", "the same analysis differs after other games on the same engine: %s: %s", d, what)
				break
			}
		}
	case "repeat":
		for i := 0; i < cs.N; i++ {
			h, depth := c18Root(r, i+cs.Idx)
			cfg := searchCfgs[r.Intn(len(searchCfgs))]
			if cfg.quiet && depth > 2 {
				depth = 2
			}
			what := fmt.Sprintf("config %s depth %d %s", cfg.name, depth, histDesc(h))
			s, _, _ := cfg.mk()
			cold, err := directSearch(s, zt0, h, depth)
			if err != nil {
				continue
			}
			c.Distinct(what)
			// unrelated searches in between, with the same search object
			for k := 0; k < 2; k++ {
				oh, od := c18Root(r, r.Intn(100))
				directSearch(s, zt0, oh, od)
			}
			again, err := directSearch(s, zt0, h, depth)
			c.Eval(1)
			c.Count("repeat_checks", 1)
			if err == nil {
				if d := cold.diff(again, true); d != "" {
					c.Violate("determinism:repeat", "same search after unrelated searches differs: %s: %s", d, what)
				}
			}
			// other hash seeds
			for _, zs := range []int64{1, cs.Seed} {
				s2, _, _ := cfg.mk()
				other, err := directSearch(s2, board.NewZobristTable(zs), h, depth)
				c.Eval(1)
				c.Count("seed_checks", 1)
				if err == nil {
					if d := cold.diff(other, true); d != "" {
						c.Violate("determinism:hash-seed", "zobrist seed %d changes the result: %s: %s", zs, d, what)
					}
				}
			}
			if i == 0 && cs.Idx%16 == 0 {
				c.Sample(map[string]any{"kind": "repeat", "config": cfg.name, "depth": depth, "start": h.Start.FEN(), "moves": h.MoveStrs(), "result": cold})
			}
		}
	case "engines":
		for i := 0; i < cs.N; i++ {
			rc := &recipes[r.Intn(len(recipes))]
			h, depth := c18Root(r, i+cs.Idx)
			if rc.name == "turochamp" && depth > 2 {
				depth = 2
			}
			what := fmt.Sprintf("engine %s depth %d %s", rc.name, depth, histDesc(h))
			c.Distinct(what)
			base, note, err := analyze(ctx, rc.newEngine(ctx, engine.Options{Depth: uint(depth)}, 0, nil), h, depth)
			if err != nil {
				continue
			}
			c.Eval(1)
			c.Count("engine_runs", 1)
			if note != "" {
				c.Violate("isolation:engine-game", "analysing altered the engine's own game: %s: %s", note, what)
			}
			// same engine again (fresh Reset), after an unrelated analysis
			e := rc.newEngine(ctx, engine.Options{Depth: uint(depth)}, 0, nil)
			oh, od := c18Root(r, r.Intn(100))
			analyze(ctx, e, oh, od)
			again, _, err := analyze(ctx, e, h, depth)
			if err == nil {
				if d := streamDiff(base, again, true); d != "" {
					c.Violate("determinism:engine-repeat", "engine result after an unrelated analysis differs: %s: %s", d, what)
				}
			}
			// the same engine with a hash table: every Reset starts from a fresh table, so a repetition
			// after an unrelated analysis must look exactly like the first run
			{
				he := rc.newEngine(ctx, engine.Options{Depth: uint(depth), Hash: 1}, 0, nil)
				first, _, err1 := analyze(ctx, he, h, depth)
				analyze(ctx, he, oh, od)
				second, _, err2 := analyze(ctx, he, h, depth)
				c.Count("engine_table_reset_checks", 1)
				if err1 == nil && err2 == nil {
					if d := streamDiff(first, second, true); d != "" {
						c.Violate("determinism:table-carried-over", "same analysis on the same engine after a reset differs (hash table on): %s: %s", d, what)
					}
				}
			}
			// the same position reached through a longer history (pieces stepped out and back), analysed on the
			// engine that has just analysed the shorter one: must equal a fresh engine's analysis of the longer game
			if h2, ok := detour(r, h); ok {
				se := rc.newEngine(ctx, engine.Options{Depth: uint(depth)}, 0, nil)
				analyze(ctx, se, h, depth)
				onUsed, _, err1 := analyze(ctx, se, h2, depth)
				onFresh, _, err2 := analyze(ctx, rc.newEngine(ctx, engine.Options{Depth: uint(depth)}, 0, nil), h2, depth)
				c.Count("same_position_other_history_checks", 1)
				if err1 == nil && err2 == nil {
					if d := streamDiff(onFresh, onUsed, true); d != "" {
						c.Violate("determinism:history-cache", "analysis of a game differs between a fresh engine and one that had just analysed the same position reached by a shorter history: %s: engine %s depth %d %s", d, rc.name, depth, histDesc(h2))
					}
				}
			}
			// the same position with no history at all (set up from its FEN: nothing "has moved") analysed first, then
			// the game that leads to it on the same engine; short games from the initial position, odd and even lengths
			for j := 0; j < 2; j++ {
				g := gen.Hist{Start: gen.Starts()[0]}
				q := g.Start
				for k, n := 0, 2+r.Intn(9); k < n; k++ {
					lm := q.LegalMoves()
					if len(lm) == 0 {
						break
					}
					m := lm[r.Intn(len(lm))]
					g.Moves = append(g.Moves, m)
					q = q.Apply(m)
				}
				if len(q.LegalMoves()) == 0 {
					continue
				}
				bare := gen.Hist{Start: q}
				bare.Start.Half, bare.Start.Full = g.Final().Half, g.Final().Full
				d2 := min(depth, 2)
				se := rc.newEngine(ctx, engine.Options{Depth: uint(d2)}, 0, nil)
				analyze(ctx, se, bare, d2)
				onUsed, _, err1 := analyze(ctx, se, g, d2)
				onFresh, _, err2 := analyze(ctx, rc.newEngine(ctx, engine.Options{Depth: uint(d2)}, 0, nil), g, d2)
				c.Count("bare_then_game_checks", 1)
				if err1 == nil && err2 == nil {
					if d := streamDiff(onFresh, onUsed, true); d != "" {
						c.Violate("determinism:history-cache", "analysis of a game differs between a fresh engine and one that had just analysed the game's final position set up from its FEN: %s: engine %s depth %d %s", d, rc.name, d2, histDesc(g))
					}
				}
			}
			// different zobrist seed
			other, _, err := analyze(ctx, rc.newEngine(ctx, engine.Options{Depth: uint(depth)}, 12345+cs.Seed, nil), h, depth)
			c.Count("engine_seed_checks", 1)
			if err == nil {
				if d := streamDiff(base, other, true); d != "" {
					c.Violate("determinism:engine-hash-seed", "engine with another hash seed differs: %s: %s", d, what)
				}
			}
			// noise on: reproducible from the seed
			n1, _, err1 := analyze(ctx, rc.newEngine(ctx, engine.Options{Depth: uint(depth), Noise: 80}, 7, nil), h, depth)
			n2, _, err2 := analyze(ctx, rc.newEngine(ctx, engine.Options{Depth: uint(depth), Noise: 80}, 7, nil), h, depth)
			c.Count("noise_checks", 1)
			if err1 == nil && err2 == nil {
				if d := streamDiff(n1, n2, true); d != "" {
					c.Violate("determinism:noise-seed", "two engines with equal seed and history differ with noise on: %s: %s", d, what)
				}
			}
			// noise on, and another noisy engine set up (and searching) between this engine's set-up and its
			// analysis: the noise stream belongs to the engine, so the result is still the one of the seed
			if err1 == nil {
				other := rc.newEngine(ctx, engine.Options{Depth: uint(depth), Noise: 80}, 99+int64(i), nil)
				var oerr error
				n3, _, err3 := analyzeHook(ctx, rc.newEngine(ctx, engine.Options{Depth: uint(depth), Noise: 80}, 7, nil), h, depth, nil, func() {
					_, _, oerr = analyze(ctx, other, h, min(depth, 2))
				})
				c.Count("noise_interleaved_checks", 1)
				if err3 == nil && oerr == nil {
					if d := streamDiff(n1, n3, true); d != "" {
						c.Violate("determinism:noise-other-engine", "with noise on, an engine's analysis differs when another noisy engine (other seed) is set up and searches between its set-up and its analysis: %s: %s", d, what)
					}
				}
			}
			// fresh hash table: same seed => identical; (scores must also equal the table-less ones for position-determined engines)
			if rc.positionDetermined {
				t1, _, err1 := analyze(ctx, rc.newEngine(ctx, engine.Options{Depth: uint(depth), Hash: 1}, 0, nil), h, depth)
				t2, _, err2 := analyze(ctx, rc.newEngine(ctx, engine.Options{Depth: uint(depth), Hash: 1}, 0, nil), h, depth)
				if err1 == nil && err2 == nil {
					if d := streamDiff(t1, t2, true); d != "" {
						c.Violate("determinism:fresh-table", "two engines with fresh tables differ: %s: %s", d, what)
					}
				}
			}
			if i == 0 && cs.Idx%16 == 0 {
				c.Sample(map[string]any{"kind": "engines", "engine": rc.name, "depth": depth, "start": h.Start.FEN(), "moves": h.MoveStrs(), "stream": base})
			}
		}
	case "binary":
		// the same game state and depth in another process: the real binary must report what the in-process
		// engine built from the same recipe reports (this also pins the recipes to cmd/*/main.go)
		for i := 0; i < cs.N; i++ {
			rc := &recipes[r.Intn(len(recipes))]
			h, depth := c18Root(r, i+cs.Idx)
			if rc.name == "turochamp" && depth > 2 {
				depth = 2
			}
			what := fmt.Sprintf("binary %s depth %d %s", rc.name, depth, histDesc(h))
			bs, transcript, err := binaryAnalysis(c, rc.name, h, depth)
			if err != nil {
				c.Inconclusive("%v: %s", err, what)
				continue
			}
			e := rc.newEngine(ctx, engine.Options{Depth: uint(depth)}, 0, nil)
			if e.Reset(ctx, h.Start.FEN()) != nil {
				continue
			}
			for _, m := range h.Moves {
				e.Move(ctx, m.String())
			}
			out, err := e.Analyze(ctx, searchctl.Options{DepthLimit: lang.Some(uint(depth))})
			if err != nil {
				continue
			}
			pvs, _ := drain(out, 120*time.Second)
			e.Halt(ctx)
			is := uciStream(pvs)
			c.Eval(1)
			c.Count("binary_checks", 1)
			c.Distinct(what)
			// info lines are best effort (dropped once the search is answered): compare the iterations both report,
			// and the bestmove with the first move of the in-process final iteration
			bm := map[string]searchResult{}
			for _, x := range bs {
				bm[x.score[:strings.IndexByte(x.score, ':')]] = x
			}
			for _, x := range is {
				if o, ok := bm[x.score[:strings.IndexByte(x.score, ':')]]; ok {
					if d := x.diff(o, true); d != "" {
						c.Violate("determinism:binary", "the real binary and the in-process engine of the same recipe differ at %s: %s: %s: %s", x.score, d, what, transcript)
						break
					}
				}
			}
			want := "bestmove 0000"
			if len(pvs) > 0 && len(pvs[len(pvs)-1].Moves) > 0 {
				want = "bestmove " + adapt.TupleOfB(pvs[len(pvs)-1].Moves[0]).String()
			}
			if i := strings.LastIndex(transcript, "bestmove"); i < 0 || !strings.HasPrefix(transcript[i:], want) {
				c.Violate("determinism:binary", "the real binary answers differently from the in-process engine of the same recipe (expected %q): %s: %s", want, what, transcript)
			}
		}
	case "concurrent":
		for i := 0; i < cs.N; i++ {
			rc := &recipes[r.Intn(len(recipes))]
			h, depth := c18Root(r, i+cs.Idx)
			if rc.name == "turochamp" && depth > 2 {
				depth = 2
			}
			what := fmt.Sprintf("engine %s depth %d %s", rc.name, depth, histDesc(h))
			alone, _, err := analyze(ctx, rc.newEngine(ctx, engine.Options{Depth: uint(depth)}, 0, nil), h, depth)
			if err != nil {
				continue
			}
			others := 4 + r.Intn(8)
			type job struct {
				rc *recipe
				h  gen.Hist
				d  int
			}
			var jobs []job
			for k := 0; k < others; k++ {
				oh, od := c18Root(r, r.Intn(100))
				orc := &recipes[r.Intn(len(recipes))]
				if orc.name == "turochamp" && od > 2 {
					od = 2
				}
				jobs = append(jobs, job{orc, oh, od})
			}
			var wg sync.WaitGroup
			start := make(chan struct{})
			for _, j := range jobs {
				wg.Add(1)
				go func(j job) {
					defer wg.Done()
					<-start
					for k := 0; k < 2; k++ {
						analyze(ctx, j.rc.newEngine(ctx, engine.Options{Depth: uint(j.d)}, int64(k), nil), j.h, j.d)
					}
				}(j)
			}
			var loaded []searchResult
			var lerr error
			wg.Add(1)
			go func() {
				defer wg.Done()
				<-start
				loaded, _, lerr = analyzeWith(ctx, rc.newEngine(ctx, engine.Options{Depth: uint(depth)}, 0, nil), h, depth,
					func(b *board.Board, stop <-chan struct{}) { userActivity(b, stop, cs.Seed) })
			}()
			close(start)
			wg.Wait()
			c.Eval(1)
			c.Count("concurrent_checks", 1)
			c.Count("concurrent_engines", others+1)
			c.Distinct(what)
			if lerr == nil {
				if d := streamDiff(alone, loaded, true); d != "" {
					c.Violate("determinism:concurrent", "result differs when %d other engines search alongside: %s: %s", others, d, what)
				}
			}
		}
	}
}

// binaryAnalysis runs one of the real binaries (race build) over pipes: noise off, book off, one position,
// go depth d; returns the info lines' (depth, score, nodes, pv) per iteration.
func binaryAnalysis(c *fw.Ctx, name string, h gen.Hist, depth int) ([]searchResult, string, error) {
	dir := os.Getenv("VERIF_BINDIR")
	bin := filepath.Join(dir, name)
	if _, err := os.Stat(bin); err != nil {
		return nil, "", fmt.Errorf("binary %s not built", bin)
	}
	args := []string{"-logtostderr=false", "-log_dir=" + c.Scratch}
	if name != "morlock" {
		args = append(args, "-noise=0", fmt.Sprintf("-ply=%d", depth))
	}
	cmd := exec.Command(bin, args...)
	cmd.Env = append(os.Environ(), "GORACE=halt_on_error=0 exitcode=0 log_path="+filepath.Join(c.Scratch, "binrace"))
	stdin, _ := cmd.StdinPipe()
	stdout, _ := cmd.StdoutPipe()
	if err := cmd.Start(); err != nil {
		return nil, "", err
	}
	script := []string{"uci", "setoption name OwnBook value false", "setoption name Hash value 0", "setoption name Noise value 0", positionCmd(h.Start, h.Moves, true), fmt.Sprintf("go depth %d", depth)}
	for _, l := range script {
		fmt.Fprintln(stdin, l)
	}
	var stream []searchResult
	var lines []string
	sc := bufio.NewScanner(stdout)
	sc.Buffer(make([]byte, 1<<20), 1<<20)
	done := make(chan struct{})
	go func() {
		defer close(done)
		for sc.Scan() {
			l := sc.Text()
			lines = append(lines, l)
			if strings.HasPrefix(l, "bestmove") {
				return
			}
		}
	}()
	select {
	case <-done:
	case <-time.After(120 * time.Second):
		cmd.Process.Kill()
		return nil, "", fmt.Errorf("watchdog")
	}
	fmt.Fprintln(stdin, "quit")
	stdin.Close()
	cmd.Wait()
	seen := map[string]bool{}
	for _, l := range lines {
		if !strings.HasPrefix(l, "info depth ") {
			continue
		}
		f := strings.Fields(l)
		r := searchResult{}
		d := ""
		for i := 0; i+1 < len(f); i++ {
			switch f[i] {
			case "depth":
				d = f[i+1]
			case "cp", "mate":
				r.score = f[i] + " " + f[i+1]
			case "nodes":
				fmt.Sscan(f[i+1], &r.nodes)
			case "pv":
				r.pv = strings.Join(f[i+1:], " ")
			}
		}
		key := d + "|" + r.score + "|" + r.pv
		if seen[key] {
			continue // the final info line repeats the last iteration
		}
		seen[key] = true
		r.score = "d" + d + ":" + r.score
		stream = append(stream, r)
	}
	return stream, strings.Join(lines, " | "), nil
}

// uciStream renders an in-process PV stream the way the UCI driver prints it.
func uciStream(pvs []search.PV) []searchResult {
	var out []searchResult
	seen := map[string]bool{}
	for _, pv := range pvs {
		r := searchResult{nodes: pv.Nodes}
		if pv.Score.IsHeuristic() {
			r.score = fmt.Sprintf("cp %d", int(pv.Score.Pawns*100))
		} else {
			r.score = fmt.Sprintf("mate %d", eval.IncrementMateDistance(pv.Score).Mate/2)
		}
		var ms []string
		for _, m := range pv.Moves {
			ms = append(ms, adapt.TupleOfB(m).String())
		}
		r.pv = strings.Join(ms, " ")
		key := fmt.Sprint(pv.Depth) + "|" + r.score + "|" + r.pv
		if seen[key] {
			continue
		}
		seen[key] = true
		r.score = fmt.Sprintf("d%d:%s", pv.Depth, r.score)
		out = append(out, r)
	}
	return out
}

func init() {
	fw.Register(&fw.Monitor{
		ID:          "C18",
		Level:       "exploration",
		RaceKinds:   map[string]bool{"concurrent": true, "engines": true, "api": true},
		Technique:   "runtime differential monitor: the same search repeated cold / after unrelated searches / with other hash seeds / alongside 4-11 concurrently searching engines (race detector on) must give identical (score, PV, nodes); engine game snapshot before/after analysis",
		Rule:        "direct searches: generated roots x 10 configurations, repeated after unrelated searches on the same search object and on boards with other zobrist seeds; engines: the four bundled recipes through Engine.Reset/Move/Analyze to a depth limit: PV stream (depth, score, moves, nodes per iteration) compared across repetition, hash seed, equal-seed noise, fresh tables; concurrent: probe engine alone vs. alongside other engines in the same process under the race detector; Position() and board snapshot before/after Analyze..Halt; manygames: the same analysis before and after k other games on one engine, k in {1, 7, 250, 253..258, 511..513} (thorough also 65534..65537); api: random sequences of the engine's public calls (Move legal/illegal, TakeBack, Reset to another game / the same game / the live FEN, Analyze limited/unlimited, Halt, option setters, Board() forks played on by a user) with the reported FEN and the full snapshot compared with a reference game after every call (race build); distinct = distinct (configuration/engine, depth, history)",
		Assumptions: []string{"noise off and no table carried over, as the property states; with a fresh table only equal-seed engines are compared on node counts"},
		Setup:       validateOracle,
		Timeout:     minutes(15, 120),
		Cases: func(tier string, seed int64) []fw.Case {
			l := mkCases(nil, "repeat", 32, seed, pick(tier, 20, 600))
			l = mkCases(l, "engines", 16, seed, pick(tier, 6, 120))
			l = mkCases(l, "concurrent", 8, seed, pick(tier, 3, 60))
			l = mkCases(l, "binary", 8, seed, pick(tier, 3, 60))
			l = mkCases(l, "api", 16, seed, pick(tier, 8, 250))
			l = mkCases(l, "manygames", 8, seed, pick(tier, 12, 16))
			return l
		},
		Floors: func(string) map[string]int64 {
			return map[string]int64{"repeat_checks": 500, "seed_checks": 1000, "engine_runs": 60, "noise_checks": 60, "noise_interleaved_checks": 60, "bare_then_game_checks": 100, "concurrent_checks": 15, "binary_checks": 15, "api_sessions": 80, "api_state_checks": 2000, "api_analyses": 200, "api_move_during_analysis": 30, "api_takebacks": 50, "api_reset_to_live_fen": 15, "api_user_forks": 50, "api_concurrent_moves": 50, "manygames_checks": 60, "manygames_resets": 20000}
		},
		Run: runC18,
	})
}
