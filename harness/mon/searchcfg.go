package mon

import (
	"context"
	"math/rand"

	"github.com/herohde/morlock/cmd/bernstein/bernstein"
	"github.com/herohde/morlock/cmd/sargon/sargon"
	"github.com/herohde/morlock/cmd/turochamp/turochamp"
	"github.com/herohde/morlock/pkg/board"
	"github.com/herohde/morlock/pkg/eval"
	"github.com/herohde/morlock/pkg/search"

	"verif/adapt"
	"verif/gen"
	"verif/ref"
	"verif/refsearch"
)

// searchCfg pairs a search configuration of the system under test with its reference description.
type searchCfg struct {
	name          string
	posDetermined bool // evaluator and exploration depend on the position only (C11 scope)
	quiet         bool // leaf is a quiescence search
	limit         int  // branch limit of the exploration (0 = none)
	// mk returns fresh instances: the search under test, the reference config, and a function to
	// call on the reference side before each root search (SARGON re-anchors its evaluator there).
	mk func() (search.Search, refsearch.Config, func(b *board.Board))
}

func noop(*board.Board) {}

// embeddedQuiet is a quiescence search put together the way a user of the package might: the type embeds the
// static leaf (so it also has the leaf's Evaluate method) and overrides QuietSearch with the capture search.
// Behaviour is exactly search.Quiescence's; only the method set differs.
type embeddedQuiet struct {
	search.Leaf
	q search.Quiescence
}

func (e embeddedQuiet) QuietSearch(ctx context.Context, sctx *search.Context, b *board.Board) (uint64, eval.Score) {
	return e.q.QuietSearch(ctx, sctx, b)
}

var searchCfgs = []searchCfg{
	{name: "full+material", posDetermined: true, mk: func() (search.Search, refsearch.Config, func(*board.Board)) {
		return search.AlphaBeta{Eval: search.Leaf{Eval: eval.Material{}}}, refsearch.Config{Static: eval.Material{}}, noop
	}},
	{name: "full+hash", posDetermined: true, mk: func() (search.Search, refsearch.Config, func(*board.Board)) {
		return search.AlphaBeta{Eval: search.Leaf{Eval: refsearch.HashEval{}}}, refsearch.Config{Static: refsearch.HashEval{}}, noop
	}},
	{name: "full+quiet(captures,material)", posDetermined: true, quiet: true, mk: func() (search.Search, refsearch.Config, func(*board.Board)) {
		return search.AlphaBeta{Eval: search.Quiescence{Explore: refsearch.CapturesOnly, Eval: search.Leaf{Eval: eval.Material{}}}},
			refsearch.Config{Static: eval.Material{}, QuietExplore: refsearch.CapturesOnly}, noop
	}},
	{name: "full+quiet(captures,hash)", posDetermined: true, quiet: true, mk: func() (search.Search, refsearch.Config, func(*board.Board)) {
		leaf := search.Leaf{Eval: refsearch.HashEval{}}
		return search.AlphaBeta{Eval: embeddedQuiet{Leaf: leaf, q: search.Quiescence{Explore: refsearch.CapturesOnly, Eval: leaf}}},
			refsearch.Config{Static: refsearch.HashEval{}, QuietExplore: refsearch.CapturesOnly}, noop
	}},
	{name: "turochamp", quiet: true, mk: func() (search.Search, refsearch.Config, func(*board.Board)) {
		return search.AlphaBeta{Eval: search.Quiescence{Explore: turochamp.ConsiderableMovesOnly, Eval: search.Leaf{Eval: turochamp.Eval{}}}},
			refsearch.Config{Static: turochamp.Eval{}, QuietExplore: turochamp.ConsiderableMovesOnly}, noop
	}},
	{name: "bernstein(limit=7)", posDetermined: true, limit: 7, mk: func() (search.Search, refsearch.Config, func(*board.Board)) {
		ex := bernstein.PlausibleMoveTable{Limit: 7}.Explore
		return search.AlphaBeta{Explore: ex, Eval: search.Leaf{Eval: bernstein.Eval{Factor: 20}}}, refsearch.Config{Explore: ex, Static: bernstein.Eval{Factor: 20}}, noop
	}},
	{name: "bernstein(limit=3)", posDetermined: true, limit: 3, mk: func() (search.Search, refsearch.Config, func(*board.Board)) {
		ex := bernstein.PlausibleMoveTable{Limit: 3}.Explore
		return search.AlphaBeta{Explore: ex, Eval: search.Leaf{Eval: bernstein.Eval{Factor: 20}}}, refsearch.Config{Explore: ex, Static: bernstein.Eval{Factor: 20}}, noop
	}},
	{name: "bernstein(limit=1)", posDetermined: true, limit: 1, mk: func() (search.Search, refsearch.Config, func(*board.Board)) {
		ex := bernstein.PlausibleMoveTable{Limit: 1}.Explore
		return search.AlphaBeta{Explore: ex, Eval: search.Leaf{Eval: eval.Material{}}}, refsearch.Config{Explore: ex, Static: eval.Material{}}, noop
	}},
	{name: "sargon", mk: func() (search.Search, refsearch.Config, func(*board.Board)) {
		points := &sargon.Points{}
		s := sargon.Hook{
			Eval: search.AlphaBeta{Explore: sargon.SkipUnderPromotions, Eval: sargon.OnePlyIfChecked{Leaf: search.Leaf{Eval: points}}},
			Hook: points,
		}
		rp := &sargon.Points{}
		return s, refsearch.Config{Explore: sargon.SkipUnderPromotions, Static: rp, OnePlyIfChecked: true},
			func(b *board.Board) { rp.Reset(context.Background(), b) }
	}},
	{name: "noUnderPromotion+hash", posDetermined: true, mk: func() (search.Search, refsearch.Config, func(*board.Board)) {
		return search.AlphaBeta{Explore: sargon.SkipUnderPromotions, Eval: search.Leaf{Eval: refsearch.HashEval{}}},
			refsearch.Config{Explore: sargon.SkipUnderPromotions, Static: refsearch.HashEval{}}, noop
	}},
}

// searchRoot is a root for search monitors: a history and a tag describing where it came from.
type searchRoot struct {
	h   gen.Hist
	tag string
}

// searchCorpus draws a search root of the given flavour.
func searchCorpus(r *rand.Rand, i int) searchRoot {
	switch i % 10 {
	case 0: // mating nets: heavy pieces against a lone king
		return searchRoot{gen.Hist{Start: gen.TacticOK(r, 8)}, "matingnet"}
	case 1:
		return searchRoot{gen.Playout(r, smallMaterial(r), r.Intn(8), gen.Neutral), "sparse"}
	case 2: // reversible shuffles: repetitions inside the tree
		var start ref.Pos
		if r.Intn(2) == 0 {
			start = gen.TacticOK(r, 8+r.Intn(2))
		} else {
			start = smallMaterial(r)
		}
		return searchRoot{gen.Playout(r, start, 4+r.Intn(14), gen.Shuffly), "shuffled"}
	case 3: // clocks close to the fifty-move limit
		if r.Intn(3) == 0 {
			// ... with a quiet mate in one available on the very move that completes the hundred plies
			for try := 0; try < 60; try++ {
				p := gen.TacticOK(r, 8)
				for _, m := range p.LegalMoves() {
					if m.Capture != 0 || m.Piece == ref.Pawn {
						continue
					}
					q := p.Apply(m)
					if q.InCheck(q.White) && len(q.LegalMoves()) == 0 {
						p.Half = 99
						return searchRoot{gen.Hist{Start: p}, "clock99-quiet-mate"}
					}
				}
			}
		}
		p := gen.TacticOK(r, 8+r.Intn(2))
		p.Half = 94 + r.Intn(6)
		return searchRoot{gen.Playout(r, p, r.Intn(3), gen.NoProgress), "clock95+"}
	case 4:
		starts := gen.Starts()
		return searchRoot{gen.Playout(r, starts[r.Intn(len(starts))], r.Intn(30), gen.Biases[r.Intn(len(gen.Biases))]), "middlegame"}
	case 5:
		return searchRoot{gen.Playout(r, gen.SynthOK(r), r.Intn(6), gen.Neutral), "synthetic"}
	case 6: // promotion races; stalemate as a saving resource
		if r.Intn(2) == 0 {
			return searchRoot{gen.Hist{Start: gen.TacticOK(r, 11)}, "stalemate-resource"}
		}
		return searchRoot{gen.Playout(r, gen.TacticOK(r, 6), r.Intn(4), gen.Tactical), "promotion"}
	case 7:
		if r.Intn(2) == 0 {
			return searchRoot{gen.Hist{Start: gen.TacticOK(r, 8)}, "matingnet"}
		}
		return searchRoot{gen.Playout(r, gen.TacticOK(r, r.Intn(8)), r.Intn(4), gen.Tactical), "tactic"}
	case 8: // shuffles in the middlegame from the initial position (threefold of early positions)
		return searchRoot{gen.Playout(r, gen.Starts()[0], 6+r.Intn(10), gen.Shuffly), "opening-shuffle"}
	default:
		return searchRoot{gen.Playout(r, smallMaterial(r), 6+r.Intn(20), gen.Shuffly), "sparse-shuffled"}
	}
}

// depthFor picks the deepest search whose tree stays within the node budget, estimating the
// tree size from the branching at the root (n0) and one ply below it (n1), alternating.
func depthFor(n0, n1 int, budget float64, maxDepth int) int {
	if n0 < 1 {
		n0 = 1
	}
	if n1 < 1 {
		n1 = 1
	}
	nodes := 1.0
	d := 0
	for d < maxDepth {
		f := float64(n0)
		if d%2 == 1 {
			f = float64(n1)
		}
		if nodes*f > budget && d >= 1 {
			break
		}
		nodes *= f
		d++
	}
	return d
}

// branching returns the number of legal moves at the root and the average one ply below.
func branching(b *board.Board, limit int) (int, int) {
	p := adapt.RefOfBoard(b)
	ms := p.LegalMoves()
	n0 := len(ms)
	sum, cnt := 0, 0
	for i, m := range ms {
		if i%3 != 0 {
			continue
		}
		q := p.Apply(m)
		sum += len(q.LegalMoves())
		cnt++
	}
	n1 := 1
	if cnt > 0 {
		n1 = (sum + cnt - 1) / cnt
	}
	if limit > 0 {
		if n0 > limit {
			n0 = limit
		}
		if n1 > limit {
			n1 = limit
		}
	}
	return n0, n1
}

func legalCount(b *board.Board) int {
	p := adapt.RefOfBoard(b)
	return len(p.LegalMoves())
}

// quietTame reports whether the configuration's quiescence search stays small at the root and at
// its children (many-queens positions can make a captures-only quiescence explode).
func quietTame(h gen.Hist, cfg searchCfg) bool {
	if !cfg.quiet {
		return true
	}
	b, ok := boardOf(h)
	if !ok {
		return false
	}
	_, rcfg, _ := cfg.mk()
	rs := &refsearch.Searcher{Cfg: rcfg, Budget: 4000}
	rs.Quiet(b)
	if rs.Over {
		return false
	}
	for _, m := range b.Position().PseudoLegalMoves(b.Turn()) {
		if b.PushMove(m) {
			rs.Quiet(b)
			b.PopMove()
			if rs.Over {
				return false
			}
		}
	}
	return true
}
