package mon

import (
	"context"
	"fmt"
	"math"
	"math/rand"

	"github.com/herohde/morlock/cmd/bernstein/bernstein"
	"github.com/herohde/morlock/cmd/sargon/sargon"
	"github.com/herohde/morlock/cmd/turochamp/turochamp"
	"github.com/herohde/morlock/pkg/board"
	"github.com/herohde/morlock/pkg/engine"
	"github.com/herohde/morlock/pkg/eval"

	"verif/adapt"
	"verif/fw"
	"verif/gen"
	"verif/ref"
)

// C20 — historical engines: total evaluations, colour-blind evaluations, sound move filters, legal book moves.

func boardOf(h gen.Hist) (*board.Board, bool) {
	b, err := adapt.Board(zt0, h.Start)
	if err != nil {
		return nil, false
	}
	for _, m := range h.Moves {
		if !adapt.Push(b, m) {
			return nil, false
		}
	}
	return b, true
}

func mirrorHist(h gen.Hist) gen.Hist {
	n := gen.Hist{Start: h.Start.Mirror()}
	for _, m := range h.Moves {
		n.Moves = append(n.Moves, ref.MirrorMove(m))
	}
	return n
}

func finite(p eval.Pawns) bool {
	f := float64(p)
	return !math.IsNaN(f) && !math.IsInf(f, 0)
}

func guard(c *fw.Ctx, key, what string, fn func()) {
	defer func() {
		if r := recover(); r != nil {
			c.Violate(key, "%s panicked: %v", what, r)
		}
	}()
	fn()
}

// boardWithTakeBacks sets the game up like boardOf, but tries other moves (castling first) and takes them back
// on the way: the board then holds the same game, reached the way a user or a search on the board reaches it.
func boardWithTakeBacks(c *fw.Ctx, r *rand.Rand, h gen.Hist) (*board.Board, bool) {
	b, err := adapt.Board(zt0, h.Start)
	if err != nil {
		return nil, false
	}
	g := ref.NewGame(h.Start)
	try := func() {
		ms := g.Cur.LegalMoves()
		if len(ms) == 0 {
			return
		}
		m := ms[r.Intn(len(ms))]
		for _, x := range ms {
			if (x.Kind == ref.KCastleK || x.Kind == ref.KCastleQ) && r.Intn(4) != 0 {
				m = x
				c.Count("castle_takebacks", 1)
				break
			}
		}
		if adapt.Push(b, m) {
			b.PopMove()
			c.Count("takebacks_on_the_way", 1)
		}
	}
	for _, m := range h.Moves {
		if r.Intn(3) == 0 {
			try()
		}
		if !adapt.Push(b, m) {
			return nil, false
		}
		g.Push(m)
	}
	try()
	return b, true
}

func c20Position(c *fw.Ctx, r *rand.Rand, h gen.Hist) {
	ctx := context.Background()
	b, ok := boardOf(h)
	if r.Intn(3) == 0 {
		b, ok = boardWithTakeBacks(c, r, h)
	}
	if !ok {
		return
	}
	mb, ok := boardOf(mirrorHist(h))
	if !ok {
		return
	}
	p := h.Final()
	desc := func() string { return fmt.Sprintf("start %q moves %v", h.Start.FEN(), h.MoveStrs()) }
	c.Count("positions", 1)
	c.Distinct(p.Key() + fmt.Sprint(len(h.Moves)))
	legal := p.LegalMoves()
	legalSet := map[adapt.MoveTuple]bool{}
	for _, m := range legal {
		legalSet[adapt.TupleOfR(m)] = true
	}

	// (1) evaluations: finite, colour-blind
	type ev struct {
		name      string
		e         eval.Evaluator
		symmetric bool
	}
	factor := []int{0, 1, 20, 1000, -1}[r.Intn(5)]
	evs := []ev{
		{"material", eval.Material{}, true},
		{"turochamp", turochamp.Eval{}, true},
		{"turochamp-material", turochamp.Material{}, true},
		{fmt.Sprintf("bernstein(factor=%d)", factor), bernstein.Eval{Factor: factor}, true},
	}
	// The same position without its history is evaluated first (and only on this side of the mirror): a value
	// that leaks from one board to another with the same placement (a cache keyed by position alone) then
	// shows up as an asymmetry below.
	if fb, ok := boardOf(gen.Hist{Start: p}); ok && len(h.Moves) > 0 {
		for _, e := range evs {
			guard(c, "eval:panic:"+e.name, e.name+".Evaluate (history-free) in "+desc(), func() {
				if v := e.e.Evaluate(ctx, fb); !finite(v) {
					c.Violate("eval:nonfinite:"+e.name, "%s evaluates %q to %v", e.name, p.FEN(), float64(v))
				}
			})
		}
		if b.HasCastled(board.White) || b.HasCastled(board.Black) {
			c.Count("castled_histories", 1)
		}
	}
	for _, e := range evs {
		guard(c, "eval:panic:"+e.name, e.name+".Evaluate in "+desc(), func() {
			c.Eval(1)
			v := e.e.Evaluate(ctx, b)
			if !finite(v) {
				c.Violate("eval:nonfinite:"+e.name, "%s evaluates %v to %v", e.name, desc(), float64(v))
			}
			if e.symmetric {
				mv := e.e.Evaluate(ctx, mb)
				c.Count("mirror_checks", 1)
				if mv != v {
					c.Violate("eval:asymmetric:"+e.name, "%s gives %v, on the colour-mirrored game %v: %s", e.name, float64(v), float64(mv), desc())
				}
			}
		})
	}
	guard(c, "eval:panic:sargon", "sargon Points in "+desc(), func() {
		pts := &sargon.Points{}
		pts.Reset(ctx, b)
		c.Eval(1)
		if v := pts.Evaluate(ctx, b); !finite(v) {
			c.Violate("eval:nonfinite:sargon", "sargon evaluates %v to %v", desc(), float64(v))
		}
		// and one ply below the root, where the heuristic is anchored to the root side
		for i, m := range legal {
			if i >= 4 {
				break
			}
			if adapt.Push(b, m) {
				if v := pts.Evaluate(ctx, b); !finite(v) {
					c.Violate("eval:nonfinite:sargon", "sargon evaluates child %v of %v to %v", m, desc(), float64(v))
				}
				b.PopMove()
			}
		}
	})

	// (2) move filters
	pseudo := b.Position().PseudoLegalMoves(b.Turn())
	guard(c, "filter:panic:plausible", "FindPlausibleMoves in "+desc(), func() {
		list := bernstein.FindPlausibleMoves(b)
		seen := map[adapt.MoveTuple]bool{}
		for _, m := range list {
			t := adapt.TupleOfB(m)
			if !legalSet[t] {
				c.Violate("filter:plausible-illegal", "plausible move %v is not legal in %s", t, desc())
			}
			if seen[t] {
				c.Violate("filter:plausible-duplicate", "plausible move %v listed twice in %s", t, desc())
			}
			seen[t] = true
		}
		for _, limit := range []int{1, 3, 7, 0} {
			c.Eval(1)
			c.Count("plausible_checks", 1)
			_, pred := bernstein.PlausibleMoveTable{Limit: limit}.Explore(ctx, b)
			sel, selLegal := 0, 0
			for _, m := range pseudo {
				if pred(m) {
					sel++
					if legalSet[adapt.TupleOfB(m)] {
						selLegal++
					} else {
						c.Violate("filter:plausible-illegal", "plausible-move table (limit %d) selects illegal %v in %s", limit, adapt.TupleOfB(m), desc())
					}
				}
			}
			if limit > 0 && sel > limit {
				c.Violate("filter:plausible-limit", "plausible-move table selects %d moves with branch limit %d in %s", sel, limit, desc())
			}
			if len(legal) > 0 && selLegal == 0 {
				c.Violate("filter:plausible-empty", "plausible-move table (limit %d) selects no legal move although %d exist in %s", limit, len(legal), desc())
			}
		}
	})
	guard(c, "filter:panic:underpromo", "SkipUnderPromotions in "+desc(), func() {
		_, pred := sargon.SkipUnderPromotions(ctx, b)
		n := 0
		for _, m := range pseudo {
			if legalSet[adapt.TupleOfB(m)] && pred(m) {
				n++
				if m.IsUnderPromotion() {
					c.Violate("filter:underpromo-selected", "under-promotion %v selected in %s", adapt.TupleOfB(m), desc())
				}
			}
		}
		c.Eval(1)
		if len(legal) > 0 && n == 0 {
			c.Violate("filter:underpromo-empty", "SkipUnderPromotions selects nothing although %d legal moves exist in %s", len(legal), desc())
		}
	})
	guard(c, "filter:panic:considerable", "IsConsiderableMove in "+desc(), func() {
		_, pred := turochamp.ConsiderableMovesOnly(ctx, b)
		for _, m := range pseudo {
			if !legalSet[adapt.TupleOfB(m)] {
				continue
			}
			if !b.PushMove(m) {
				continue
			}
			c.Eval(1)
			sel := pred(m)
			mate := len(func() []ref.Move { q := adapt.RefOfBoard(b); return q.LegalMoves() }()) == 0 && b.Position().IsChecked(b.Turn())
			if mate && !sel {
				c.Violate("filter:considerable-mate", "mating move %v not considerable in %s", adapt.TupleOfB(m), desc())
			}
			if sel {
				c.Count("considerable_selected", 1)
			}
			if sel && !m.IsCapture() && !mate {
				c.Violate("filter:considerable-quiet", "quiet non-mating move %v considered in %s", adapt.TupleOfB(m), desc())
			}
			b.PopMove()
		}
	})
}

func checkBook(c *fw.Ctx, name string, bk engine.Book, p ref.Pos) {
	ctx := context.Background()
	c.Eval(1)
	c.Count("book_lookups", 1)
	moves, err := bk.Find(ctx, p.FEN())
	if err != nil {
		c.Violate("book:error:"+name, "%s book fails on %q: %v", name, p.FEN(), err)
		return
	}
	if len(moves) == 0 {
		return
	}
	c.Count("book_hits", 1)
	c.Distinct(name + p.Key())
	for _, m := range moves {
		t := adapt.TupleOfB(m)
		if _, ok := p.FindMove(t.From, t.To, t.Promo); !ok {
			c.Violate("book:illegal:"+name, "%s book answers %q with %v, which is not legal there", name, p.FEN(), t)
		}
	}
}

func init() {
	fw.Register(&fw.Monitor{
		ID:          "C20",
		Level:       "exploration",
		Technique:   "runtime oracle over generated positions with short histories: finiteness and colour-mirror symmetry of evaluations, move filters vs the independent legal-move set, book replies vs the legal-move set over the enumerated opening tree",
		Rule:        "positions with histories (playouts from curated and synthetic starts, tactical shapes, sparse endings, boxed kings, one long-range piece on open lines ending in enemy men: the extremes of mobility and capture counts) x branch limits {1,3,7,0} x material factors {0,1,20,1000,-1}: evaluations finite; Material/TUROCHAMP/BERNSTEIN equal on the colour-mirrored game (a third of the games set up with moves tried and taken back on the way, castling first); plausible-move / no-under-promotion / considerable-move filters vs the oracle's legal set; books: every position of the game tree to depth 3 from the initial position (9323 positions) looked up in the SARGON, BERNSTEIN and generated line books; distinct = distinct (position, history length) + distinct book hits",
		Assumptions: []string{"reference rules implementation (package ref)", "SARGON's evaluation is anchored to the root side by design: only totality is checked for it"},
		Setup:       validateOracle,
		Timeout:     minutes(10, 60),
		Cases: func(tier string, seed int64) []fw.Case {
			l := mkCases(nil, "positions", 32, seed, pick(tier, 600, 60000))
			l = append(l, fw.Case{Idx: len(l), Kind: "books", Seed: seed})
			l = mkCases(l, "linebooks", 4, seed, pick(tier, 60, 1500))
			return l
		},
		Floors: func(string) map[string]int64 {
			return map[string]int64{"positions": 2000, "mirror_checks": 8000, "plausible_checks": 8000, "book_lookups": 9000, "book_hits": 20, "considerable_selected": 500, "boxed_king_positions": 300, "open_line_positions": 250, "castled_histories": 100, "takebacks_on_the_way": 300, "castle_takebacks": 10, "book_variant_lookups": 200}
		},
		Run: func(c *fw.Ctx, cs fw.Case) {
			r := cs.Rand()
			switch cs.Kind {
			case "positions":
				for i := 0; i < cs.N; i++ {
					var h gen.Hist
					switch i % 7 {
					case 6:
						if p, ok := gen.OpenLines(r); ok {
							h = gen.Playout(r, p, r.Intn(2), gen.Neutral)
							c.Count("open_line_positions", 1)
						} else {
							h = randomHist(r, 30)
						}
					case 5:
						if p, ok := gen.BoxedKing(r); ok {
							h = gen.Hist{Start: p}
							c.Count("boxed_king_positions", 1)
						} else {
							h = randomHist(r, 30)
						}
					case 0:
						h = gen.Hist{Start: gen.TacticOK(r, r.Intn(gen.NumTactics))}
						h = gen.Playout(r, h.Start, r.Intn(4), gen.Tactical)
					case 1:
						h = gen.Playout(r, smallMaterial(r), r.Intn(12), gen.Neutral)
					case 2:
						bias := gen.Biases[r.Intn(len(gen.Biases))]
						if r.Intn(2) == 0 {
							bias = gen.CastleShuffle
						}
						h = gen.Playout(r, gen.Starts()[[]int{0, 0, 8, 25, 26}[r.Intn(5)]], 4+r.Intn(40), bias)
					default:
						h = randomHist(r, 70)
					}
					c20Position(c, r, h)
					if i == 0 && cs.Idx%16 == 0 {
						c.Sample(map[string]any{"start": h.Start.FEN(), "moves": h.MoveStrs()})
					}
				}
			case "books":
				sb := sargon.NewBook()
				bb := bernstein.NewBook()
				var walk func(p ref.Pos, d int)
				walk = func(p ref.Pos, d int) {
					checkBook(c, "sargon", sb, p)
					checkBook(c, "bernstein", bb, p)
					if d == 0 {
						return
					}
					for _, m := range p.LegalMoves() {
						walk(p.Apply(m), d-1)
					}
				}
				walk(gen.Starts()[0], 3)
				// the clock fields must not matter for a look-up
				q := gen.Starts()[0]
				q.Half, q.Full = 7, 42
				checkBook(c, "sargon", sb, q)
				c.Sample(map[string]any{"kind": "books", "tree": "all positions to depth 3 from the initial position"})
			case "linebooks":
				for i := 0; i < cs.N; i++ {
					var lines []engine.Line
					var hists []gen.Hist
					for j := 0; j < 1+r.Intn(6); j++ {
						bias := gen.Biases[r.Intn(len(gen.Biases))]
						if j%2 == 0 {
							bias = gen.Bias{Capture: 2, Check: 1, Promo: 1, Castle: 1, EP: 500, Quiet: 1, PawnMove: 4} // en passant as soon as possible
						}
						h := gen.Playout(r, gen.Starts()[0], 1+r.Intn(14), bias)
						hists = append(hists, h)
						lines = append(lines, engine.Line(h.MoveStrs()))
					}
					var bk engine.Book
					var err error
					guard(c, "book:panic:newbook", "engine.NewBook", func() { bk, err = engine.NewBook(lines) })
					if err != nil || bk == nil {
						c.Violate("book:newbook", "NewBook rejects legal lines %v: %v", lines, err)
						continue
					}
					for _, h := range hists {
						p := h.Start
						checkBook(c, "lines", bk, p)
						for _, m := range h.Moves {
							p = p.Apply(m)
							checkBook(c, "lines", bk, p)
							// the same placement reached by another move order: no e.p. right / fewer castling rights.
							// Whatever the book answers there must be legal there.
							if p.EP >= 0 {
								q := p
								q.EP = -1
								checkBook(c, "lines", bk, q)
								c.Count("book_variant_lookups", 1)
							}
							if p.Cast != 0 && r.Intn(3) == 0 {
								q := p
								q.Cast &^= uint8(1 << uint(r.Intn(4)))
								checkBook(c, "lines", bk, q)
								c.Count("book_variant_lookups", 1)
							}
						}
					}
				}
			}
		},
	})
}
