package mon

import (
	"context"
	"fmt"
	"math/rand"
	"regexp"
	"strings"
	"time"

	"github.com/herohde/morlock/pkg/engine"
	"github.com/herohde/morlock/pkg/engine/console"

	"verif/fw"
	"verif/gen"
	"verif/ref"
)

// consoleSession drives the console (debugging) driver in-process. The protocol is synchronous enough to be
// read line by line: a board print ends with its "result:" line, an analysis with its per-move breakdown.
type consoleSession struct {
	e   *engine.Engine
	in  chan string
	out <-chan string
	log []string
}

func newConsoleSession(rc *recipe, opts engine.Options) *consoleSession {
	ctx := context.Background()
	s := &consoleSession{in: make(chan string, 8)}
	s.e = rc.newEngine(ctx, opts, 0, nil)
	_, s.out = console.NewDriver(ctx, s.e, rc.build(idWrap), s.in)
	s.readBoard()
	return s
}

func (s *consoleSession) next() (string, bool) {
	select {
	case l, ok := <-s.out:
		if ok {
			s.log = append(s.log, "< "+l)
		}
		return l, ok
	case <-time.After(120 * time.Second):
		return "", false
	}
}

// readBoard consumes a board print (ends with the "result:" line and a blank line).
func (s *consoleSession) readBoard() bool {
	for {
		l, ok := s.next()
		if !ok {
			return false
		}
		if strings.HasPrefix(l, "invalid move") {
			return false
		}
		if strings.HasPrefix(l, "result:") {
			_, ok = s.next()
			return ok
		}
	}
}

func (s *consoleSession) cmd(line string) {
	s.log = append(s.log, "> "+line)
	s.in <- line
}

type consoleAnalysis struct {
	byDepth   map[int]string // depth -> score text
	final     string
	finalD    int
	breakdown map[string]string // move -> score text
	top       string            // score of the first breakdown line
}

var (
	rePV   = regexp.MustCompile(`^depth=(\d+) score=(\S+) nodes=`)
	reLine = regexp.MustCompile(`^\s*(\d+)\. ([^\t]+)\t(\S+)\t`)
)

func normScoreText(s string) string {
	if s == "-0.00" {
		return "0.00"
	}
	return s
}

// analyze runs "analyze <depth>" to completion; legal is the number of legal moves of the position.
func (s *consoleSession) analyze(depth, legal int) (consoleAnalysis, bool) {
	a := consoleAnalysis{byDepth: map[int]string{}, breakdown: map[string]string{}}
	s.cmd(fmt.Sprintf("analyze %d", depth))
	for {
		l, ok := s.next()
		if !ok {
			return a, false
		}
		if m := rePV.FindStringSubmatch(l); m != nil {
			d := 0
			fmt.Sscan(m[1], &d)
			a.byDepth[d] = normScoreText(m[2])
			a.final, a.finalD = normScoreText(m[2]), d
			continue
		}
		if strings.HasPrefix(l, "Search, depth=") {
			for i := 0; i < legal; i++ {
				l, ok := s.next()
				if !ok {
					return a, false
				}
				m := reLine.FindStringSubmatch(l)
				if m == nil {
					return a, false
				}
				a.breakdown[m[2]] = normScoreText(m[3])
				if i == 0 {
					a.top = normScoreText(m[3])
				}
			}
			return a, true
		}
	}
}

func (s *consoleSession) quit() {
	s.cmd("quit")
	for {
		if _, ok := s.next(); !ok {
			return
		}
	}
}

func (s *consoleSession) transcript(n int) string {
	l := s.log
	var keep []string
	for _, x := range l {
		if strings.HasPrefix(x, ">") || strings.HasPrefix(x, "< depth=") || strings.HasPrefix(x, "< bestmove") || strings.HasPrefix(x, "< Search") {
			keep = append(keep, x)
		}
	}
	if len(keep) > n {
		keep = keep[len(keep)-n:]
	}
	return strings.Join(keep, " | ")
}

// consoleTransparency: the same console session (set up, analyze, take back, analyze deeper, move, ...) on an
// engine with a hash table and on one without: every analysis must report the same scores (C11, on "every
// later search of the same or successive positions of a game", here through the second protocol driver).
func consoleTransparency(c *fw.Ctx, r *rand.Rand, idx int) {
	rc := &recipes[[]int{0, 3}[r.Intn(2)]] // position-determined evaluations: morlock, bernstein
	hash := uint([]int{1, 1, 2, 16}[r.Intn(4)])
	st := newConsoleSession(rc, engine.Options{Hash: hash})
	s0 := newConsoleSession(rc, engine.Options{Hash: 0})
	defer st.quit()
	defer s0.quit()
	what := func() string {
		return fmt.Sprintf("console, engine %s, hash %d MB: with table: %s || without: %s", rc.name, hash, st.transcript(16), s0.transcript(16))
	}
	both := func(line string) bool {
		st.cmd(line)
		s0.cmd(line)
		a, b := st.readBoard(), s0.readBoard()
		return a && b
	}
	h, tag := c11Root(r, idx)
	if len(h.Moves) == 0 {
		// give the game a little history so that there is something to take back
		h = gen.Playout(r, h.Start, 1+r.Intn(3), gen.Neutral)
		if !repetitionFree(h) {
			return
		}
	}
	line := "reset " + h.Start.FEN()
	if len(h.Moves) > 0 {
		line += " moves " + strings.Join(h.MoveStrs(), " ")
	}
	if !both(line) {
		c.Violate("console:setup", "reset not answered by a board print (%s): %s", tag, what())
		return
	}
	cur := h
	compare := func(depth int) bool {
		fp := cur.Final()
		legal := len(fp.LegalMoves())
		if legal == 0 || !repetitionFree(cur) || fp.Half >= 80 {
			return false
		}
		at, ok1 := st.analyze(depth, legal)
		a0, ok2 := s0.analyze(depth, legal)
		if !ok1 || !ok2 {
			c.Inconclusive("console analysis not completed within the watchdog: " + what())
			return false
		}
		c.Eval(1)
		c.Count("console_analyses", 1)
		for d, sc := range at.byDepth {
			if o, ok := a0.byDepth[d]; ok && o != sc {
				c.Violate("tt:console-score", "analyze %d of %q: depth %d score %s with the hash table, %s without: %s", depth, fp.FEN(), d, sc, o, what())
				return false
			}
		}
		if at.finalD == a0.finalD && at.final != a0.final {
			c.Violate("tt:console-score", "analyze %d of %q: final score %s with the hash table, %s without: %s", depth, fp.FEN(), at.final, a0.final, what())
			return false
		}
		// the per-move breakdown is computed without a table in both sessions
		for m, sc := range at.breakdown {
			if o, ok := a0.breakdown[m]; ok && o != sc && at.finalD == a0.finalD {
				c.Violate("tt:console-breakdown", "analyze %d of %q: breakdown of %s is %s in the session with a hash table, %s in the one without: %s", depth, fp.FEN(), m, sc, o, what())
				return false
			}
		}
		if rc.name == "morlock" && at.top != "" && at.final != at.top { // (BERNSTEIN's root only explores its plausible moves, the breakdown lists all)
			c.Violate("tt:console-breakdown", "analyze %d of %q: score %s with the hash table, but the best move's table-less breakdown at the same depth says %s: %s", depth, fp.FEN(), at.final, at.top, what())
			return false
		}
		return true
	}
	b, ok := boardOf(cur)
	if !ok {
		return
	}
	n0, n1 := branching(b, 0)
	base := depthFor(n0, n1, 1200, 3)
	for step := 0; step < 3+r.Intn(3); step++ {
		d := base
		if !compare(d) {
			break
		}
		switch {
		case len(cur.Moves) > 0 && r.Intn(2) == 0:
			// take back, look one ply deeper from the earlier position (which contains the line just analysed)
			if !both("undo") {
				c.Violate("console:undo", "undo not answered by a board print: %s", what())
				return
			}
			cur = gen.Hist{Start: cur.Start, Moves: cur.Moves[:len(cur.Moves)-1]}
			c.Count("console_undo_then_deeper", 1)
			if !compare(ttSafeDepth(cur, d+1)) {
				return
			}
		default:
			fp := cur.Final()
			ms := fp.LegalMoves()
			if len(ms) == 0 {
				return
			}
			m := ms[r.Intn(len(ms))]
			if !both(m.String()) {
				c.Violate("console:move", "legal move %v not accepted: %s", m, what())
				return
			}
			cur = gen.Hist{Start: cur.Start, Moves: append(append([]ref.Move{}, cur.Moves...), m)}
		}
	}
	c.Count("console_sessions", 1)
	c.Distinct(st.transcript(1000))
}
