package mon

import (
	"context"
	"fmt"
	"runtime"
	"strings"
	"sync"
	"sync/atomic"
	"time"

	"github.com/herohde/morlock/pkg/engine"
	"github.com/herohde/morlock/pkg/engine/uci"
	"github.com/herohde/morlock/pkg/eval"

	"verif/adapt"
	"verif/ref"
)

// uciSession drives a UCI driver in-process through its pair of channels and records everything.
type uciSession struct {
	rc   *recipe
	e    *engine.Engine
	d    *uci.Driver
	in   chan string
	gate *gateEval // optional: the engine's static evaluator goes through this gate

	paused atomic.Bool  // the reader stops taking lines from the driver (a GUI that is behind)
	slowNs atomic.Int64 // the reader takes one line per this many nanoseconds (a GUI catching up slowly)

	mu     sync.Mutex
	cond   *sync.Cond
	lines  []string // every output line, in order
	closed bool     // output channel closed
	log    []string // transcript: "> cmd" and "< line"
}

const uciWatchdog = 60 * time.Second

func newUCISession(rc *recipe, opts engine.Options, zseed int64, useBook bool, bookSeed int64, gated bool) *uciSession {
	ctx := context.Background()
	s := &uciSession{rc: rc, in: make(chan string, 64)}
	s.cond = sync.NewCond(&s.mu)
	var wrap func(eval.Evaluator) eval.Evaluator
	if gated {
		wrap = func(e eval.Evaluator) eval.Evaluator { s.gate = newGate(e); return s.gate }
	}
	s.e = rc.newEngine(ctx, opts, zseed, wrap)
	var dopts []uci.Option
	if rc.book != nil {
		dopts = append(dopts, uci.UseBook(rc.book(), bookSeed))
	}
	d, out := uci.NewDriver(ctx, s.e, s.in, dopts...)
	s.d = d
	go func() {
		for {
			for s.paused.Load() {
				time.Sleep(200 * time.Microsecond)
			}
			if d := s.slowNs.Load(); d > 0 {
				time.Sleep(time.Duration(d))
			}
			l, ok := <-out
			if !ok {
				break
			}
			s.mu.Lock()
			s.lines = append(s.lines, l)
			s.log = append(s.log, "< "+l)
			s.cond.Broadcast()
			s.mu.Unlock()
		}
		s.mu.Lock()
		s.closed = true
		s.log = append(s.log, "< (output closed)")
		s.cond.Broadcast()
		s.mu.Unlock()
	}()
	if rc.book != nil && !useBook {
		s.send("setoption name OwnBook value false")
	}
	return s
}

func (s *uciSession) send(line string) int {
	s.mu.Lock()
	s.log = append(s.log, "> "+line)
	mark := len(s.lines)
	s.mu.Unlock()
	s.in <- line
	return mark
}

// mark returns the current output position.
func (s *uciSession) mark() int {
	s.mu.Lock()
	defer s.mu.Unlock()
	return len(s.lines)
}

// waitLine waits for an output line at or after position from that satisfies pred.
func (s *uciSession) waitLine(from int, pred func(string) bool, timeout time.Duration) (int, string, bool) {
	deadline := time.Now().Add(timeout)
	timer := time.AfterFunc(timeout, func() { s.mu.Lock(); s.cond.Broadcast(); s.mu.Unlock() })
	defer timer.Stop()
	s.mu.Lock()
	defer s.mu.Unlock()
	i := from
	for {
		for ; i < len(s.lines); i++ {
			if pred(s.lines[i]) {
				return i, s.lines[i], true
			}
		}
		if s.closed || time.Now().After(deadline) {
			return -1, "", false
		}
		s.cond.Wait()
	}
}

func isBestmove(l string) bool { return strings.HasPrefix(l, "bestmove") }

// sync sends isready and waits for the readyok that answers it. Returns the output position of readyok.
func (s *uciSession) sync() (int, bool) {
	m := s.send("isready")
	i, _, ok := s.waitLine(m, func(l string) bool { return l == "readyok" }, uciWatchdog)
	return i, ok
}

// bestmovesBetween lists the bestmove lines in output positions [from, to).
func (s *uciSession) bestmovesBetween(from, to int) []string {
	s.mu.Lock()
	defer s.mu.Unlock()
	if to > len(s.lines) || to < 0 {
		to = len(s.lines)
	}
	var ret []string
	for i := from; i < to; i++ {
		if isBestmove(s.lines[i]) {
			ret = append(ret, s.lines[i])
		}
	}
	return ret
}

func (s *uciSession) waitClosed(timeout time.Duration) bool {
	deadline := time.Now().Add(timeout)
	timer := time.AfterFunc(timeout, func() { s.mu.Lock(); s.cond.Broadcast(); s.mu.Unlock() })
	defer timer.Stop()
	s.mu.Lock()
	defer s.mu.Unlock()
	for !s.closed {
		if time.Now().After(deadline) {
			return false
		}
		s.cond.Wait()
	}
	return true
}

// transcript returns the tail of the session log.
func (s *uciSession) transcript(n int) string {
	s.mu.Lock()
	defer s.mu.Unlock()
	l := s.log
	if len(l) > n {
		l = append([]string{fmt.Sprintf("... (%d earlier lines)", len(l)-n)}, l[len(l)-n:]...)
	}
	var out []string
	for _, x := range l {
		if strings.HasPrefix(x, "< info") && len(x) > 90 {
			x = x[:90] + "..."
		}
		out = append(out, x)
	}
	return strings.Join(out, " | ")
}

// shutdown ends the session with quit or end of input and checks that the output closes.
func (s *uciSession) shutdown(byQuit bool) bool {
	if s.gate != nil {
		s.gate.open()
	}
	if byQuit {
		s.send("quit")
	} else {
		s.mu.Lock()
		s.log = append(s.log, "> (end of input)")
		s.mu.Unlock()
		close(s.in)
	}
	ok := s.waitClosed(uciWatchdog)
	if ok {
		select {
		case <-s.d.Closed():
		case <-time.After(uciWatchdog):
			ok = false
		}
	}
	return ok
}

// stacks returns a dump of all goroutines (for hang diagnosis).
func stacks() string {
	buf := make([]byte, 1<<20)
	n := runtime.Stack(buf, true)
	return string(buf[:n])
}

// morlockGoroutines counts goroutines that are still inside morlock code.
func morlockGoroutines() (int, string) {
	dump := stacks()
	n := 0
	var sample string
	for _, g := range strings.Split(dump, "\n\n") {
		if strings.Contains(g, "herohde/morlock/pkg") && !strings.Contains(g, "verif/mon.stacks") {
			n++
			if sample == "" {
				sample = g
			}
		}
	}
	return n, sample
}

// positionCmd renders a position command for a history.
func positionCmd(start ref.Pos, moves []ref.Move, startposOK bool) string {
	var sb strings.Builder
	if startposOK && start.FEN() == "rnbqkbnr/pppppppp/8/8/8/8/PPPPPPPP/RNBQKBNR w KQkq - 0 1" {
		sb.WriteString("position startpos")
	} else {
		sb.WriteString("position fen " + start.FEN())
	}
	if len(moves) > 0 {
		sb.WriteString(" moves")
		for _, m := range moves {
			sb.WriteString(" " + m.String())
		}
	}
	return sb.String()
}

// legalBestmove checks a bestmove line against the oracle position.
func legalBestmove(line string, p ref.Pos) (string, bool) {
	f := strings.Fields(line)
	if len(f) < 2 {
		return "malformed bestmove line", false
	}
	legal := p.LegalMoves()
	if f[1] == "0000" {
		if len(legal) > 0 {
			return fmt.Sprintf("null move although %d legal moves exist", len(legal)), false
		}
		return "", true
	}
	from, to, promo, ok := ref.ParseMoveStr(f[1])
	if !ok {
		return "unparsable move " + f[1], false
	}
	if _, ok := p.FindMove(from, to, promo); !ok {
		return fmt.Sprintf("%s is not legal in %q", f[1], p.FEN()), false
	}
	return "", true
}

var _ = adapt.TakeSnap
