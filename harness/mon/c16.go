package mon

import (
	"bufio"
	"fmt"
	"math/rand"
	"os"
	"os/exec"
	"path/filepath"
	"runtime"
	"strings"
	"sync"
	"sync/atomic"
	"time"

	"github.com/herohde/morlock/pkg/engine"
	"github.com/herohde/morlock/pkg/verifhook"

	"verif/fw"
	"verif/gen"
	"verif/ref"
)

// C16 — the UCI driver survives any interleaving and never answers for a stale search.

var (
	curGate   atomic.Pointer[gateEval]
	hookSeen  sync.Map // point name -> *atomic.Int64
	hookOrder atomic.Uint64
)

// installDriverHooks perturbs the driver's goroutines at the hook points and makes sure a parked
// search is released as soon as somebody waits for it to halt (a gate is never held across Halt).
func installDriverHooks(seed int64, policy int) func() {
	var n atomic.Uint64
	verifhook.Set(func(name string) {
		v, _ := hookSeen.LoadOrStore(name, new(atomic.Int64))
		v.(*atomic.Int64).Add(1)
		// interleaving signature: rolling hash of the order in which hook points are reached
		for {
			old := hookOrder.Load()
			nw := old*1099511628211 ^ uint64(hashStr(name))
			if hookOrder.CompareAndSwap(old, nw) {
				break
			}
		}
		if name == "iter.halt.enter" {
			if g := curGate.Load(); g != nil {
				g.open()
			}
		}
		if strings.HasPrefix(name, "tt.") || policy == 0 {
			return
		}
		x := n.Add(1)*0x9E3779B97F4A7C15 + uint64(seed)
		x ^= x >> 29
		switch policy {
		case 1:
			if x%2 == 0 {
				time.Sleep(0) // yield
			}
		case 2:
			if x%3 != 0 {
				time.Sleep(time.Duration(x%2000) * time.Microsecond)
			}
		case 4: // hold every result-forwarding goroutine for a long while before it reports
			if name == "uci.fwd.closed" {
				time.Sleep(25 * time.Millisecond)
			}
		case 3: // long sleeps at the hand-over points only
			if name == "uci.completed" || name == "uci.fwd.closed" || name == "uci.inactive.mid" || name == "uci.exit" {
				time.Sleep(time.Duration(1+x%6) * time.Millisecond)
			}
		}
	})
	return func() { verifhook.Set(nil); curGate.Store(nil) }
}

var malformed = []string{
	"", " ", "\t", "xyzzy", "go depth", "go depth x", "go movetime", "go wtime 100 btime", "go movestogo 9223372036854775807 wtime 1000 btime 1000",
	"go depth -1", "go depth 99999999999999999999", "go wtime -5 btime -5", "go movetime -3", "go searchmoves e2e4", "go ponder",
	"position", "position fen", "position fen 8/8/8/8/8/8/8/8", "position fen garbage w - - 0 1", "position fen 9999999999999999999999999999 w - - 0 1",
	"position startpos moves e2e5", "position startpos moves", "position startpos moves e2e4 e2e4", "position startpos moves \xff\xfe", "position startpos e2e4",
	"setoption", "setoption name", "setoption name Hash value x", "setoption name Hash value -1", "setoption name Nope value 3", "setoption name Depth value 2",
	"debug on", "ponderhit", "register later", "uci", "stop stop", strings.Repeat("a", 70000), "go " + strings.Repeat("depth 1 ", 3000),
	"\x00\x00", "quit\x00", "position startpos moves é2e4", "go infinite infinite", "ucinewgame now",
	// moves the rules forbid only because of check: a pinned piece leaving its line, the king stepping next to
	// the other king / onto an attacked square, castling through an attacked square
	"position fen 4r1k1/8/8/8/8/8/4B3/4K3 w - - 0 1 moves e2d3", "position fen 4k3/8/8/8/8/8/8/R3K2r w Q - 0 1 moves e1c1",
	"position fen 8/8/8/3k4/8/3K4/8/8 w - - 0 1 moves d3d4", "position fen 4k3/8/8/8/8/5r2/8/4K2R w K - 0 1 moves e1g1 e8e7", "position startpos moves e2e4 e7e5 e1e2 d8h4 e2e3 h4e1 e3e2",
	// move tokens whose length in bytes and in characters differ
	"position startpos moves e2é", "position startpos moves g1€", "position startpos moves e2e4 e7ü", "position startpos moves e2e4é", "position startpos moves éé",
	"position startpos moves e2\u00e9\u00e9", "position startpos moves a2𝄞", "position fen é w - - 0 1", "go searchmoves e2é", "setoption name Hash value ４",
}

// c16Stale: a search that provably cannot have ended (parked at the gate) is superseded; nothing may be
// answered on its behalf.
func c16Stale(c *fw.Ctx, r *rand.Rand, idx int) {
	rc := &recipes[r.Intn(len(recipes))]
	opts, _ := recipeOptions(r, rc)
	opts.Noise = 0
	s := newUCISession(rc, opts, 0, false, 1, true)
	curGate.Store(s.gate)
	what := func() string { return fmt.Sprintf("engine %s options %v: %s", rc.name, opts, s.transcript(24)) }
	defer func() {
		if !s.shutdown(r.Intn(2) == 0) {
			c.Violate("driver:shutdown", "output not closed after quit / end of input: %s\n%s", what(), stacks())
		}
		curGate.Store(nil)
	}()
	if _, ok := s.sync(); !ok {
		c.Violate("driver:no-readyok", "no readyok after start-up: %s", what())
		return
	}
	rounds := 2 + r.Intn(4)
	for round := 0; round < rounds; round++ {
		// P1 and P2 have opposite sides to move in the same game, so a move of one is illegal in the other
		h := gen.Playout(r, gen.Starts()[[]int{0, 1, 5, 25, 26}[r.Intn(5)]], 2+r.Intn(12), gen.Neutral)
		g1 := ref.NewGameFrom(h.Start, h.Moves)
		if len(g1.Cur.LegalMoves()) == 0 {
			continue
		}
		ms := g1.Cur.LegalMoves()
		m := ms[r.Intn(len(ms))]
		g2moves := append(append([]ref.Move{}, h.Moves...), m)
		p2 := ref.NewGameFrom(h.Start, g2moves).Cur
		s.send(positionCmd(h.Start, h.Moves, true))
		blocked := s.gate.arm(1 + int64(r.Intn(25)))
		goMark := s.send(fmt.Sprintf("go depth %d", 2+r.Intn(2)))
		parked := false
		select {
		case <-blocked:
			parked = true
		case <-time.After(300 * time.Millisecond):
			// the search needed fewer evaluations than the gate position: it ended by itself
		}
		if !parked {
			s.gate.open()
			s.waitLine(goMark, isBestmove, uciWatchdog)
			s.sync()
			c.Count("stale_not_parked", 1)
			continue
		}
		c.Count("stale_parked", 1)
		kind := r.Intn(6)
		if round == 0 && r.Intn(3) == 0 {
			kind = 6
		}
		c.Count(fmt.Sprintf("supersede_kind_%d", kind), 1)
		switch kind {
		case 0: // isready while the search is parked: must be answered without waiting for the search
			if _, ok := s.sync(); !ok {
				c.Violate("driver:no-readyok", "isready not answered while a search is running: %s\n%s", what(), stacks())
				s.gate.open()
				return
			}
			if !s.gate.isBlocked() {
				c.Count("isready_released_gate", 1)
			}
			s.send("stop")
			_, _, ok := s.waitLine(goMark, isBestmove, uciWatchdog)
			end, _ := s.sync()
			bms := s.bestmovesBetween(goMark, end)
			c.Eval(1)
			if !ok || len(bms) != 1 {
				c.Violate("driver:stop-unanswered", "stop of a running search answered %d times %v: %s", len(bms), bms, what())
			} else if why, ok := legalBestmove(bms[0], g1.Cur); !ok {
				c.Violate("driver:illegal-bestmove", "stopped search answered %q: %s: %s", bms[0], why, what())
			}
		case 1, 2: // superseded by a new position (and nothing else): no answer at all may follow
			s.send(positionCmd(h.Start, g2moves, true))
			end, ok := s.sync()
			if !ok {
				c.Violate("driver:no-readyok", "isready unanswered after a position command superseded a running search: %s\n%s", what(), stacks())
				s.gate.open()
				return
			}
			time.Sleep(time.Duration(r.Intn(3)) * time.Millisecond)
			end2, _ := s.sync()
			c.Eval(1)
			if bms := s.bestmovesBetween(goMark, end2); len(bms) > 0 {
				c.Violate("driver:stale-bestmove", "search superseded by a position command (while provably still running) was answered by %v: %s", bms, what())
			}
			_ = end
		case 3: // superseded by ucinewgame
			s.send("ucinewgame")
			_, ok := s.sync()
			if !ok {
				c.Violate("driver:no-readyok", "isready unanswered after ucinewgame superseded a running search: %s\n%s", what(), stacks())
				s.gate.open()
				return
			}
			end2, _ := s.sync()
			c.Eval(1)
			if bms := s.bestmovesBetween(goMark, end2); len(bms) > 0 {
				c.Violate("driver:stale-bestmove", "search superseded by ucinewgame (while provably still running) was answered by %v: %s", bms, what())
			}
		case 6: // clock expiry and an engine-side halt overlap while the search cannot finish: the engine-side halt
			// must still wait for the search to unwind before the next search starts (shared noise generator)
			s.gate.open()
			s.waitLine(goMark, isBestmove, uciWatchdog)
			s.sync()
			s.send("setoption name Noise value 60")
			s.send("ucinewgame")
			s.send(positionCmd(h.Start, h.Moves, true))
			curGate.Store(nil) // keep the search parked across the halts: released by hand below
			blocked2 := s.gate.arm(int64(len(ms)) + 2 + int64(r.Intn(10)))
			gm := s.send("go wtime 240 btime 240")
			select {
			case <-blocked2:
			case <-time.After(300 * time.Millisecond):
				s.gate.open()
				curGate.Store(s.gate)
				s.waitLine(gm, isBestmove, uciWatchdog)
				s.sync()
				continue
			}
			time.Sleep(30 * time.Millisecond) // the hard limit (9 ms) has expired: its Halt is waiting for the search
			s.send(positionCmd(h.Start, g2moves, true))
			s.send("go depth 2")
			time.Sleep(25 * time.Millisecond)
			s.gate.open() // only now can the old search unwind
			curGate.Store(s.gate)
			_, _, ok := s.waitLine(gm, isBestmove, uciWatchdog)
			end, synced := s.sync()
			if !synced {
				c.Violate("driver:no-readyok", "isready unanswered after clock expiry and position+go overlapped: %s\n%s", what(), stacks())
				return
			}
			_ = end
			end2, _ := s.sync()
			bms := s.bestmovesBetween(gm, end2)
			c.Eval(1)
			c.Count("timer_overlap_scenarios", 1)
			if !ok || len(bms) != 1 {
				c.Violate("driver:supersede-count", "go wtime / (clock expires) / position / go answered %d times %v, one answer (for the second go) is due: %s", len(bms), bms, what())
			} else if why, ok := legalBestmove(bms[0], p2); !ok {
				c.Violate("driver:stale-bestmove", "the answer after the overlap is %q, which does not belong to the position last set up: %s: %s", bms[0], why, what())
			}
			s.send("setoption name Noise value 0")
		default: // superseded by position + go: exactly one answer, and it belongs to the new position
			s.send(positionCmd(h.Start, g2moves, true))
			s.send("go depth 1")
			_, _, ok := s.waitLine(goMark, isBestmove, uciWatchdog)
			end, synced := s.sync()
			if !synced {
				c.Violate("driver:no-readyok", "isready unanswered after position+go superseded a running search: %s\n%s", what(), stacks())
				s.gate.open()
				return
			}
			end2, _ := s.sync()
			bms := s.bestmovesBetween(goMark, end2)
			c.Eval(1)
			_ = end
			if !ok || len(bms) != 1 {
				c.Violate("driver:supersede-count", "go / position / go answered %d times %v, exactly one answer (for the second go) is due: %s", len(bms), bms, what())
			} else if why, ok := legalBestmove(bms[0], p2); !ok {
				c.Violate("driver:stale-bestmove", "the answer after go / position / go is %q, which does not belong to the position last set up: %s: %s", bms[0], why, what())
			}
		}
		s.gate.open()
	}
	c.Count("stale_sessions", 1)
	c.Distinct(s.transcript(1000))
	if idx%64 == 0 {
		c.Sample(map[string]any{"kind": "stale", "engine": rc.name, "transcript": s.transcript(14)})
	}
}

// c16Late: a search that ends by itself at the very moment it is superseded. Its answer may be emitted
// before the superseding command is processed, or not at all - but never after the driver has
// acknowledged (readyok) that it processed the superseding command.
func c16Late(c *fw.Ctx, r *rand.Rand, idx int) {
	rc := &recipes[r.Intn(len(recipes))]
	opts, _ := recipeOptions(r, rc)
	s := newUCISession(rc, opts, 0, false, 1, false)
	what := func() string { return fmt.Sprintf("engine %s options %v: %s", rc.name, opts, s.transcript(24)) }
	defer s.shutdown(r.Intn(2) == 0)
	if _, ok := s.sync(); !ok {
		return
	}
	// calibrate: how long does a depth-1 search take to be answered here and now (hook delays included)?
	s.send("position startpos")
	s.sync()
	t0 := time.Now()
	cm := s.send("go depth 1")
	s.waitLine(cm, isBestmove, uciWatchdog)
	typical := time.Since(t0)
	s.sync()
	for round := 0; round < 8; round++ {
		h := gen.Playout(r, gen.Starts()[[]int{0, 1, 5, 25, 26}[r.Intn(5)]], 2+r.Intn(12), gen.Neutral)
		g1 := ref.NewGameFrom(h.Start, h.Moves)
		ms := g1.Cur.LegalMoves()
		if len(ms) == 0 {
			continue
		}
		g2moves := append(append([]ref.Move{}, h.Moves...), ms[r.Intn(len(ms))])
		s.send(positionCmd(h.Start, h.Moves, true))
		s.sync()
		goMark := s.send([]string{"go depth 1", "go depth 1", "go movetime 1", "go wtime 1 btime 1"}[r.Intn(4)])
		// aim the superseding command at the moment the search is being answered
		time.Sleep(time.Duration(float64(typical) * (0.3 + 0.9*r.Float64())))
		s.send([]string{positionCmd(h.Start, g2moves, true), "ucinewgame"}[r.Intn(2)])
		ack, ok := s.sync()
		if !ok {
			c.Violate("driver:no-readyok", "isready unanswered: %s\n%s", what(), stacks())
			return
		}
		time.Sleep(8 * time.Millisecond)
		end, _ := s.sync()
		c.Eval(1)
		c.Count("late_answer_probes", 1)
		before := s.bestmovesBetween(goMark, ack)
		after := s.bestmovesBetween(ack, end)
		if len(before) > 0 {
			c.Count("answered_before_supersession", 1)
		}
		if len(after) > 0 {
			c.Violate("driver:stale-bestmove", "%v emitted after the driver acknowledged the command that superseded the search: %s", after, what())
			return
		}
		if len(before) > 1 {
			c.Violate("driver:duplicate-bestmove", "search answered %d times %v: %s", len(before), before, what())
		}
	}
	c.Distinct(s.transcript(1000))
}

// c16HeldForwarder: the goroutine that reports a finished search is held back (hook uci.fwd.closed) across
// ucinewgame / position / go. When it finally runs, its search is long superseded: it must not be able
// to answer for the search that is active by then (e.g. through a re-used search number).
func c16HeldForwarder(c *fw.Ctx, r *rand.Rand, idx int) {
	rc := &recipes[[]int{0, 1, 2, 3}[r.Intn(4)]]
	opts, _ := recipeOptions(r, rc)
	s := newUCISession(rc, opts, 0, false, 1, false)
	what := func() string { return fmt.Sprintf("engine %s options %v: %s", rc.name, opts, s.transcript(24)) }
	defer s.shutdown(r.Intn(2) == 0)
	if _, ok := s.sync(); !ok {
		return
	}
	for round := 0; round < 3; round++ {
		h := gen.Playout(r, gen.Starts()[[]int{0, 1, 5, 25, 26}[r.Intn(5)]], 2+r.Intn(12), gen.Neutral)
		g1 := ref.NewGameFrom(h.Start, h.Moves)
		ms := g1.Cur.LegalMoves()
		if len(ms) == 0 {
			continue
		}
		g2moves := append(append([]ref.Move{}, h.Moves...), ms[r.Intn(len(ms))])
		p2 := ref.NewGameFrom(h.Start, g2moves).Cur
		if len(p2.LegalMoves()) == 0 {
			continue
		}
		if r.Intn(2) == 0 {
			s.send("ucinewgame")
		}
		s.send(positionCmd(h.Start, h.Moves, true))
		// k quick searches, each superseded at once; their forwarders are all held for 25 ms
		k := 1 + r.Intn(3)
		for i := 0; i < k; i++ {
			s.send("go depth 1")
			s.send(positionCmd(h.Start, h.Moves, true))
		}
		s.send("ucinewgame")
		s.send(positionCmd(h.Start, g2moves, true))
		var mark int
		for i := 0; i < k; i++ { // the k-th go of the new game is the one that stays active
			mark = s.send("go infinite")
			if i < k-1 {
				s.send("stop")
				s.sync()
			}
		}
		time.Sleep(60 * time.Millisecond) // all held forwarders have run by now
		premature := s.bestmovesBetween(mark, s.mark())
		s.send("stop")
		_, _, answered := s.waitLine(mark, isBestmove, uciWatchdog)
		end, _ := s.sync()
		end2, _ := s.sync()
		_ = end
		bms := s.bestmovesBetween(mark, end2)
		c.Eval(1)
		c.Count("held_forwarder_probes", 1)
		if len(premature) > 0 {
			c.Violate("driver:stale-bestmove", "go infinite was answered %v without a stop (a held-back forwarder of a superseded search answered for it): %s", premature, what())
			return
		}
		if !answered || len(bms) != 1 {
			c.Violate("driver:supersede-count", "go infinite + stop answered %d times %v: %s", len(bms), bms, what())
			return
		}
		if why, ok := legalBestmove(bms[0], p2); !ok {
			c.Violate("driver:stale-bestmove", "go infinite + stop answered %q: %s: %s", bms[0], why, what())
			return
		}
	}
	c.Distinct(s.transcript(1000))
}

// c16Pressure: back-pressure scenarios. (1) The GUI is more than a full output queue behind when a search
// ends by itself and quit arrives: shutdown must still be clean. (2) Many move-time limits of superseded
// searches expire while the command loop is busy: the driver must still answer stop and isready.
func c16Pressure(c *fw.Ctx, r *rand.Rand, idx int) {
	rc := &recipes[[]int{0, 1, 2, 3}[r.Intn(4)]]
	opts, _ := recipeOptions(r, rc)
	if idx%2 == 0 {
		s := newUCISession(rc, opts, 0, false, 1, false)
		what := func() string { return fmt.Sprintf("engine %s options %v: %s", rc.name, opts, s.transcript(12)) }
		if _, ok := s.sync(); !ok {
			return
		}
		s.send("position startpos")
		s.sync()
		s.paused.Store(true)
		time.Sleep(2 * time.Millisecond)
		n := 101 // the reader takes one more line before it pauses: 101 readyok fill the 100-line queue exactly, loop idle
		if r.Intn(4) == 0 {
			n += 1 + r.Intn(2) // the loop itself is stuck on a readyok
		}
		byQuit := r.Intn(2) == 0
		catchUp := time.Duration(20+r.Intn(30)) * time.Millisecond
		done := make(chan struct{})
		go func() { // the driver stops reading once its output queue is full; feed it from the side
			for i := 0; i < n; i++ {
				s.send("isready")
			}
			s.send("go depth 1")
			// give the search time to end and its result to queue up behind the backlog before the GUI quits
			time.Sleep(catchUp + 30*time.Millisecond)
			if byQuit {
				s.send("quit")
			} else {
				close(s.in)
			}
			close(done)
		}()
		// the GUI stays behind until quit / end of input has been sent, then catches up (slowly, half the time)
		select {
		case <-done:
		case <-time.After(uciWatchdog):
			c.Violate("driver:shutdown", "driver stopped reading its input for good after the GUI fell behind: %s\n%s", what(), stacks())
			return
		}
		time.Sleep(catchUp / 4)
		if idx%4 == 0 {
			s.slowNs.Store(int64(500+r.Intn(2500)) * 1000) // the queue stays full for a while
		}
		s.paused.Store(false)
		select {
		case <-done:
		case <-time.After(uciWatchdog):
			c.Violate("driver:shutdown", "driver stopped reading its input for good after the GUI fell behind: %s\n%s", what(), stacks())
			return
		}
		c.Eval(1)
		c.Count("stalled_reader_scenarios", 1)
		if !s.waitClosed(uciWatchdog) {
			s.slowNs.Store(0)
			c.Violate("driver:shutdown", "output not closed after quit / end of input with a GUI that had fallen behind: %s\n%s", what(), stacks())
		}
		c.Distinct(fmt.Sprint("stalled", idx, n))
		return
	}
	// (2) pile-up of expired move-time limits
	s := newUCISession(rc, opts, 0, false, 1, true)
	what := func() string { return fmt.Sprintf("engine %s options %v: %s", rc.name, opts, s.transcript(30)) }
	defer func() {
		s.gate.open()
		if !s.shutdown(r.Intn(2) == 0) {
			c.Violate("driver:shutdown", "output not closed after quit / end of input: %s\n%s", what(), stacks())
		}
	}()
	if _, ok := s.sync(); !ok {
		return
	}
	s.send("position startpos")
	k := 12 + r.Intn(10)
	for i := 0; i < k; i++ {
		s.send(fmt.Sprintf("go infinite movetime %d", 25+r.Intn(10)))
	}
	if _, ok := s.sync(); !ok { // all k searches have been started (and superseded) by now
		c.Violate("driver:no-readyok", "isready unanswered after %d go commands: %s\n%s", k, what(), stacks())
		return
	}
	curGate.Store(nil) // keep the last search parked while the loop waits for it in Halt
	blocked := s.gate.arm(3 + int64(r.Intn(20)))
	s.send("go depth 3")
	select {
	case <-blocked:
	case <-time.After(300 * time.Millisecond):
		s.gate.open()
		return
	}
	s.send("position startpos moves e2e4") // the loop now waits in Halt for the parked search
	time.Sleep(70 * time.Millisecond)      // every move-time limit expires meanwhile
	s.gate.open()
	curGate.Store(s.gate)
	gm := s.send("go infinite")
	time.Sleep(5 * time.Millisecond)
	s.send("stop")
	_, _, answered := s.waitLine(gm, isBestmove, 20*time.Second)
	_, synced := s.sync()
	c.Eval(1)
	c.Count("timer_pileup_scenarios", 1)
	c.Distinct(fmt.Sprint("pileup", idx, k))
	if !synced {
		c.Violate("driver:no-readyok", "isready unanswered after %d move-time limits of superseded searches expired while the command loop was busy: %s\n%s", k, what(), stacks())
		return
	}
	if !answered {
		c.Violate("driver:stop-unanswered", "stop not answered after %d expired move-time limits piled up: %s", k, what())
	}
}

// c16Hostile: random command scripts incl. malformed lines; every isready answered, clean shutdown.
// c16Flood: an unlimited search of a finished game (no legal move) completes iterations as fast as it can
// hand them over, so the hand-over between search, forwarder and reader runs at full speed (with a prompt and
// with a lagging reader); isready, stop and quit must still get through.
func c16Flood(c *fw.Ctx, r *rand.Rand, idx int) {
	rc := &recipes[r.Intn(len(recipes))]
	opts, _ := recipeOptions(r, rc)
	opts.Depth = 0
	s := newUCISession(rc, opts, 0, false, 1, false)
	what := func() string { return fmt.Sprintf("engine %s options %v: %s", rc.name, opts, s.transcript(12)) }
	defer func() {
		if !s.shutdown(r.Intn(2) == 0) {
			c.Violate("driver:shutdown", "output not closed after quit / end of input: %s\n%s", what(), stacks())
		}
	}()
	for round := 0; round < 3; round++ {
		h, ok := terminalRoot(r, r.Intn(2) == 0)
		if !ok {
			continue
		}
		s.send(positionCmd(h.Start, h.Moves, false))
		if r.Intn(2) == 0 {
			s.slowNs.Store(int64(20+r.Intn(200)) * 1000) // the reader takes a line every 20-220 microseconds
		}
		m := s.send("go infinite")
		time.Sleep(time.Duration(20+r.Intn(150)) * time.Millisecond)
		s.slowNs.Store(0)
		c.Eval(1)
		c.Count("flood_rounds", 1)
		if _, ok := s.sync(); !ok {
			c.Violate("driver:no-readyok", "isready unanswered while an unlimited search of a finished game is flooding iterations: %s\n%s", what(), stacks())
			return
		}
		s.send("stop")
		if _, _, ok := s.waitLine(m, isBestmove, uciWatchdog); !ok {
			c.Violate("driver:no-bestmove", "stop not answered by a bestmove after an unlimited search of a finished game: %s\n%s", what(), stacks())
			return
		}
		if _, ok := s.sync(); !ok {
			c.Violate("driver:no-readyok", "isready unanswered after stop: %s\n%s", what(), stacks())
			return
		}
	}
	c.Distinct(s.transcript(40))
}

func c16Hostile(c *fw.Ctx, r *rand.Rand, idx int) {
	rc := &recipes[r.Intn(len(recipes))]
	opts, maxDepth := recipeOptions(r, rc)
	s := newUCISession(rc, opts, r.Int63n(3), rc.book != nil && r.Intn(2) == 0, r.Int63(), false)
	what := func() string { return fmt.Sprintf("engine %s options %v: %s", rc.name, opts, s.transcript(30)) }
	isready, steps := 0, 8+r.Intn(30)
	alive := true
	var cur *ref.Game
	searching := false
	for i := 0; i < steps && alive; i++ {
		switch x := r.Intn(20); {
		case x < 3:
			if _, ok := s.sync(); !ok {
				c.Violate("driver:no-readyok", "isready unanswered: %s\n%s", what(), stacks())
				alive = false
			}
			isready++
		case x < 6:
			h := gen.Playout(r, gen.Starts()[r.Intn(len(gen.StartFENs))], r.Intn(20), gen.Neutral)
			if r.Intn(5) == 0 {
				// a finished game (mate or stalemate on the board): an unlimited search of it completes
				// iterations as fast as it can report them
				if t, ok := terminalRoot(r, r.Intn(2) == 0); ok {
					h = t
					c.Count("hostile_moveless_positions", 1)
				}
			}
			cur = ref.NewGameFrom(h.Start, h.Moves)
			s.send(positionCmd(h.Start, h.Moves, true))
			searching = false
		case x < 10:
			cmd := []string{"go depth %d", "go movetime %d", "go infinite", "go", "go wtime %d btime 50", "go depth %d movetime 30", "go infinite"}[r.Intn(7)]
			if strings.Contains(cmd, "%d") {
				cmd = fmt.Sprintf(cmd, 1+r.Intn(maxDepth))
			}
			s.send(cmd)
			searching = true
		case x < 12:
			s.send("stop")
			searching = false
		case x < 13:
			s.send("ucinewgame")
			searching = false
		case x < 14:
			s.send(fmt.Sprintf("setoption name %s value %d", []string{"Hash", "Depth", "Noise"}[r.Intn(3)], r.Intn(3)))
		default:
			s.send(malformed[r.Intn(len(malformed))])
		}
		if r.Intn(3) == 0 {
			time.Sleep(time.Duration(r.Intn(1500)) * time.Microsecond)
		}
	}
	_ = cur
	_ = searching
	if alive {
		// after everything, the driver must still be a working engine: fresh position, go, one legal answer
		s.send("stop")
		if _, ok := s.sync(); !ok {
			c.Violate("driver:no-readyok", "isready unanswered at the end of a hostile script: %s\n%s", what(), stacks())
		} else {
			isready++
			p := gen.Starts()[0]
			s.send("ucinewgame")
			s.send("position startpos")
			s.sync() // whatever was still being reported for earlier searches is out before this readyok
			m := s.send("go depth 1")
			_, _, ok := s.waitLine(m, isBestmove, uciWatchdog)
			end, _ := s.sync()
			bms := s.bestmovesBetween(m, end)
			c.Eval(1)
			c.Count("final_go_checks", 1)
			if !ok || len(bms) != 1 {
				c.Violate("driver:dead-after-script", "after the script, position startpos / go depth 1 was answered %d times: %s", len(bms), what())
			} else if why, ok := legalBestmove(bms[0], p); !ok && !(rc.book != nil) {
				c.Violate("driver:illegal-bestmove", "final go answered %q: %s: %s", bms[0], why, what())
			}
		}
	}
	c.Count("hostile_sessions", 1)
	c.Count("isready_answered", isready)
	byQuit := r.Intn(2) == 0
	if r.Intn(3) == 0 {
		// quit / EOF in the middle of a search
		s.send("position startpos")
		s.send([]string{"go infinite", "go depth 1", "go depth 2", "go movetime 5"}[r.Intn(4)])
		c.Count("quit_during_search", 1)
		if r.Intn(2) == 0 {
			time.Sleep(time.Duration(r.Intn(2000)) * time.Microsecond)
		}
	}
	if !s.shutdown(byQuit) {
		c.Violate("driver:shutdown", "output not closed within the watchdog after quit / end of input: %s\n%s", what(), stacks())
		return
	}
	c.Distinct(s.transcript(1000))
	if idx%64 == 0 {
		c.Sample(map[string]any{"kind": "hostile", "engine": rc.name, "transcript": s.transcript(14)})
	}
}

// leakCheck: after all sessions of a case have shut down, no goroutine may remain inside morlock code.
func leakCheck(c *fw.Ctx) {
	var n int
	var sample string
	for i := 0; i < 100; i++ {
		n, sample = morlockGoroutines()
		if n == 0 {
			break
		}
		time.Sleep(100 * time.Millisecond)
	}
	c.Eval(1)
	c.Count("leak_checks", 1)
	if n > 0 {
		c.Violate("driver:goroutine-left", "%d goroutine(s) still inside morlock code 10 s after every driver has shut down, e.g.\n%s", n, sample)
	}
}

// ---- black box: the real binaries over pipes ----

func c16BlackBox(c *fw.Ctx, r *rand.Rand, idx int) {
	dir := os.Getenv("VERIF_BINDIR")
	name := []string{"morlock", "turochamp", "sargon", "bernstein"}[r.Intn(4)]
	bin := filepath.Join(dir, name)
	if _, err := os.Stat(bin); err != nil {
		c.Inconclusive("binary %s not built", bin)
		return
	}
	args := []string{"-logtostderr=false", "-log_dir=" + c.Scratch}
	switch name {
	case "turochamp":
		args = append(args, fmt.Sprintf("-ply=%d", 1+r.Intn(2)), fmt.Sprintf("-noise=%d", []int{0, 10}[r.Intn(2)]))
	case "sargon":
		args = append(args, fmt.Sprintf("-ply=%d", 1+r.Intn(2)))
	case "bernstein":
		args = append(args, fmt.Sprintf("-ply=%d", 2+r.Intn(2)))
	}
	cmd := exec.Command(bin, args...)
	cmd.Env = append(os.Environ(), "GORACE=halt_on_error=0 exitcode=0 log_path="+filepath.Join(c.Scratch, fmt.Sprintf("bbrace.%d", idx)))
	stdin, _ := cmd.StdinPipe()
	stdout, _ := cmd.StdoutPipe()
	errFile := filepath.Join(c.Scratch, fmt.Sprintf("bb.%d.stderr", idx))
	ef, _ := os.Create(errFile)
	cmd.Stderr = ef
	if err := cmd.Start(); err != nil {
		c.Inconclusive("cannot start %s: %v", bin, err)
		return
	}
	var mu sync.Mutex
	var lines []string
	var log []string
	done := make(chan struct{})
	go func() {
		sc := bufio.NewScanner(stdout)
		sc.Buffer(make([]byte, 1<<20), 1<<20)
		for sc.Scan() {
			mu.Lock()
			lines = append(lines, sc.Text())
			log = append(log, "< "+sc.Text())
			mu.Unlock()
		}
		close(done)
	}()
	send := func(l string) int {
		mu.Lock()
		log = append(log, "> "+l)
		m := len(lines)
		mu.Unlock()
		fmt.Fprintln(stdin, l)
		return m
	}
	wait := func(from int, pred func(string) bool) bool {
		deadline := time.Now().Add(uciWatchdog)
		for time.Now().Before(deadline) {
			mu.Lock()
			for i := from; i < len(lines); i++ {
				if pred(lines[i]) {
					mu.Unlock()
					return true
				}
			}
			mu.Unlock()
			select {
			case <-done:
				return false
			case <-time.After(2 * time.Millisecond):
			}
		}
		return false
	}
	transcript := func() string {
		mu.Lock()
		defer mu.Unlock()
		l := log
		if len(l) > 30 {
			l = l[len(l)-30:]
		}
		return name + " " + strings.Join(args[2:], " ") + ": " + strings.Join(l, " | ")
	}
	send("uci")
	ok := wait(0, func(l string) bool { return l == "uciok" })
	if !ok {
		c.Violate("driver:blackbox-uciok", "no uciok: %s", transcript())
	}
	steps := 4 + r.Intn(10)
	for i := 0; i < steps && ok; i++ {
		switch r.Intn(8) {
		case 0, 1, 2:
			h := gen.Playout(r, gen.Starts()[0], r.Intn(16), gen.Neutral)
			p := ref.NewGameFrom(h.Start, h.Moves).Cur
			if name == "sargon" || name == "bernstein" {
				send("setoption name OwnBook value false")
			}
			send(positionCmd(h.Start, h.Moves, true))
			gm := send([]string{"go depth 1", "go depth 2", "go movetime 10", "go wtime 100 btime 100"}[r.Intn(4)])
			answered := wait(gm, isBestmove)
			m := send("isready")
			if !wait(m, func(l string) bool { return l == "readyok" }) {
				c.Violate("driver:no-readyok", "binary does not answer isready: %s", transcript())
				ok = false
				break
			}
			c.Eval(1)
			c.Count("blackbox_gos", 1)
			mu.Lock()
			var bms []string
			for _, l := range lines[gm:] {
				if isBestmove(l) {
					bms = append(bms, l)
				}
			}
			mu.Unlock()
			if !answered || len(bms) != 1 {
				c.Violate("driver:blackbox-bestmove", "go answered %d times: %s", len(bms), transcript())
			} else if why, good := legalBestmove(bms[0], p); !good {
				c.Violate("driver:illegal-bestmove", "binary answered %q: %s: %s", bms[0], why, transcript())
			}
		case 3:
			// go infinite never ends by itself: whatever supersedes it, at most the stop is answered
			if name == "sargon" || name == "bernstein" {
				send("setoption name OwnBook value false") // a book move answers even go infinite at once
			}
			gm := send("go infinite")
			time.Sleep(time.Duration(r.Intn(5)) * time.Millisecond)
			follow := []string{"stop", "position startpos", "ucinewgame", "go depth 1"}[r.Intn(4)]
			send(follow)
			want := 0
			if follow == "stop" || follow == "go depth 1" {
				want = 1
				wait(gm, isBestmove)
			}
			m := send("isready")
			if !wait(m, func(l string) bool { return l == "readyok" }) {
				c.Violate("driver:no-readyok", "binary does not answer isready: %s", transcript())
				ok = false
				break
			}
			m2 := send("isready")
			wait(m2, func(l string) bool { return l == "readyok" })
			c.Eval(1)
			c.Count("blackbox_infinite", 1)
			mu.Lock()
			n := 0
			for _, l := range lines[gm:] {
				if isBestmove(l) {
					n++
				}
			}
			mu.Unlock()
			if n != want {
				key := "driver:blackbox-bestmove"
				if n > want {
					key = "driver:stale-bestmove"
				}
				c.Violate(key, "go infinite followed by %q answered %d times, %d expected: %s", follow, n, want, transcript())
			}
		case 4:
			line := malformed[r.Intn(len(malformed))]
			send(line)
			if strings.HasPrefix(strings.TrimSpace(strings.ToLower(line)), "go") {
				// some of the odd lines are searches after all: close the exchange so that its answer is not
				// mistaken for the next one's
				send("stop")
				for k := 0; k < 2; k++ {
					m := send("isready")
					if !wait(m, func(l string) bool { return l == "readyok" }) {
						c.Violate("driver:no-readyok", "binary does not answer isready: %s", transcript())
						ok = false
						break
					}
				}
			}
		default:
			m := send("isready")
			if !wait(m, func(l string) bool { return l == "readyok" }) {
				c.Violate("driver:no-readyok", "binary does not answer isready: %s", transcript())
				ok = false
			}
		}
	}
	if r.Intn(2) == 0 {
		send("go infinite")
	}
	if r.Intn(2) == 0 {
		send("quit")
	}
	stdin.Close()
	exited := make(chan error, 1)
	go func() { exited <- cmd.Wait() }()
	select {
	case err := <-exited:
		ef.Close()
		c.Count("blackbox_sessions", 1)
		c.Distinct(transcript())
		eb, _ := os.ReadFile(errFile)
		if err != nil || strings.Contains(string(eb), "panic:") || strings.Contains(string(eb), "fatal error:") {
			tail := string(eb)
			if len(tail) > 3000 {
				tail = tail[:3000]
			}
			c.Violate("driver:blackbox-exit", "binary ended with %v: %s\n%s", err, transcript(), tail)
		}
	case <-time.After(uciWatchdog):
		cmd.Process.Kill()
		ef.Close()
		c.Violate("driver:blackbox-hang", "binary did not exit within the watchdog after quit / end of input: %s", transcript())
	}
	if rb, _ := filepath.Glob(filepath.Join(c.Scratch, fmt.Sprintf("bbrace.%d*", idx))); len(rb) > 0 {
		for _, f := range rb {
			b, _ := os.ReadFile(f)
			if strings.Contains(string(b), "DATA RACE") {
				t := string(b)
				if len(t) > 4000 {
					t = t[:4000]
				}
				c.Violate("driver:blackbox-race", "data race in %s: %s\n%s", name, transcript(), t)
			}
		}
	}
	if idx%64 == 0 {
		c.Sample(map[string]any{"kind": "blackbox", "binary": name, "transcript": transcript()})
	}
}

func init() {
	fw.Register(&fw.Monitor{
		ID:          "C16",
		Level:       "exploration",
		Race:        true,
		Technique:   "runtime protocol monitor under the race detector: gate evaluator parks the search so that a superseded search provably has not ended, hook-point delays widen the hand-over windows between command loop, forwarder, timers and search; hostile and malformed command scripts; real binaries driven over pipes; goroutine-dump based leak and hang diagnosis",
		Rule:        "stale: go on P1 parked inside its k-th evaluation, then isready / stop / position P2 / ucinewgame / position P2 + go (P1, P2 have opposite sides to move): every isready answered while searching, a superseded search never answered, position+go answered exactly once with a move of P2; flood: go infinite on a finished game (mate / stalemate on the board) with a prompt or lagging reader, then isready / stop / isready; hostile: 8-37 random commands from {isready, position, go (6 forms), stop, ucinewgame, setoption, 59 malformed or unknown lines incl. over-long, non-UTF8, multi-byte move tokens, moves illegal only because of check, missing/overflowing arguments} with random pauses, then the driver must still answer position startpos / go depth 1 exactly once, then quit or end of input (also in the middle of a search): output closes; afterwards no goroutine remains inside morlock code; hook policies none / yield / random sleeps / long sleeps at hand-over points; every fifth in-process case with GOMAXPROCS(1); blackbox: the four binaries (race build) driven over pipes: uciok, readyok, one legal bestmove per go, exit 0 without panic or race report; distinct = distinct session transcripts; interleaving signatures = distinct rolling hashes of hook-point order",
		Assumptions: []string{"an unanswered isready is reported after a 60 s watchdog together with a goroutine dump (operations take milliseconds)", "a gate is never held across Halt: the iter.halt.enter hook releases it"},
		Setup:       validateOracle,
		Timeout:     minutes(15, 120),
		Cases: func(tier string, seed int64) []fw.Case {
			l := mkCases(nil, "stale", 32, seed, pick(tier, 4, 60))
			l = mkCases(l, "late", 16, seed, pick(tier, 4, 80))
			l = mkCases(l, "held", 8, seed, pick(tier, 3, 40))
			l = mkCases(l, "pressure", 8, seed, pick(tier, 4, 40))
			l = mkCases(l, "hostile", 32, seed, pick(tier, 5, 100))
			l = mkCases(l, "blackbox", 16, seed, pick(tier, 2, 40))
			return l
		},
		Floors: func(string) map[string]int64 {
			return map[string]int64{"stale_sessions": 100, "stale_parked": 150, "hostile_sessions": 150, "isready_answered": 300, "final_go_checks": 100, "quit_during_search": 20, "leak_checks": 30, "timer_overlap_scenarios": 5, "late_answer_probes": 150, "held_forwarder_probes": 40, "stalled_reader_scenarios": 10, "timer_pileup_scenarios": 8, "answered_before_supersession": 20, "blackbox_sessions": 25, "blackbox_gos": 40, "hook_points_seen": 8, "flood_rounds": 30, "single_cpu_cases": 10}
		},
		Run: func(c *fw.Ctx, cs fw.Case) {
			r := cs.Rand()
			if cs.Kind != "blackbox" && cs.Idx%5 == 4 {
				// every fifth case on a single processor (a one-CPU container): goroutines run only when others block
				defer runtime.GOMAXPROCS(runtime.GOMAXPROCS(1))
				c.Count("single_cpu_cases", 1)
			}
			switch cs.Kind {
			case "stale":
				defer installDriverHooks(cs.Seed, cs.Idx%4)()
				for i := 0; i < cs.N; i++ {
					c16Stale(c, r, cs.Idx*1000+i)
				}
				leakCheck(c)
			case "late":
				defer installDriverHooks(cs.Seed, []int{3, 3, 2, 0}[cs.Idx%4])()
				for i := 0; i < cs.N; i++ {
					c16Late(c, r, cs.Idx*1000+i)
				}
			case "pressure":
				defer installDriverHooks(cs.Seed, []int{0, 1}[cs.Idx%2])()
				for i := 0; i < cs.N; i++ {
					c16Pressure(c, r, cs.Idx*1000+i)
				}
				leakCheck(c)
			case "held":
				defer installDriverHooks(cs.Seed, 4)()
				for i := 0; i < cs.N; i++ {
					c16HeldForwarder(c, r, cs.Idx*1000+i)
				}
			case "hostile":
				defer installDriverHooks(cs.Seed, cs.Idx%4)()
				for i := 0; i < cs.N; i++ {
					c16Hostile(c, r, cs.Idx*1000+i)
					if i%4 == 0 {
						c16Flood(c, r, cs.Idx*1000+i)
					}
				}
				leakCheck(c)
			case "blackbox":
				for i := 0; i < cs.N; i++ {
					c16BlackBox(c, r, cs.Idx*1000+i)
				}
			}
			// interleaving evidence
			seen := 0
			hookSeen.Range(func(k, v any) bool { seen++; return true })
			if cs.Kind != "blackbox" {
				c.Count("hook_points_seen", seen)
				c.DistinctHash(hookOrder.Load())
				c.Note("hook_order_signature_"+fmt.Sprint(cs.Idx), fmt.Sprintf("%016x", hookOrder.Load()))
			}
		},
	})
}

var _ = engine.Options{}
