package mon

import (
	"context"
	"fmt"
	"math/rand"
	"strings"
	"time"

	"github.com/herohde/morlock/pkg/board"
	"github.com/herohde/morlock/pkg/search"
	"github.com/herohde/morlock/pkg/search/searchctl"
	"github.com/seekerror/stdlib/pkg/lang"

	"verif/adapt"
	"verif/fw"
	"verif/gen"
	"verif/ref"
)

// engineAPI drives one engine through a random sequence of its public calls — Move (legal and not), TakeBack,
// Reset (other game, same game, the FEN it currently reports), Analyze (limited / unlimited), Halt, option
// setters, Board() forks that a user plays on meanwhile — and after every call compares the engine's own game
// (reported FEN and the full snapshot of Board()) with the game a reference model says it holds. Analyses come
// and go, are halted explicitly or implicitly by the next call: none of that may alter the game (C18), and
// only the explicit game operations may change it, each exactly as the rules say.
func engineAPI(c *fw.Ctx, r *rand.Rand, idx int) {
	ctx := context.Background()
	rc := &recipes[r.Intn(len(recipes))]
	opts, _ := recipeOptions(r, rc)
	e := rc.newEngine(ctx, opts, 0, nil)
	var log []string
	what := func() string {
		l := log
		if len(l) > 30 {
			l = append([]string{fmt.Sprintf("... (%d earlier calls)", len(l)-30)}, l[len(l)-30:]...)
		}
		return fmt.Sprintf("engine %s options %v: %s", rc.name, opts, strings.Join(l, "; "))
	}
	var g *ref.Game
	// whether an analysis is active: known for every call but one (a well-formed but unplayable move may or may
	// not halt it: the contract does not say), after which the next Analyze / Halt tells
	active, unsure := false, false
	var outs []<-chan search.PV
	type user struct{ stop, done chan struct{} }
	var users []user
	stopUsers := func() {
		for _, u := range users {
			close(u.stop)
			<-u.done
		}
		users = nil
	}
	defer func() {
		stopUsers()
		e.Halt(ctx)
	}()
	setup := func(l lineGame) bool {
		log = append(log, fmt.Sprintf("Reset(%q)+%d moves", l.start.FEN(), len(l.moves)))
		if err := e.Reset(ctx, l.start.FEN()); err != nil {
			c.Violate("api:reset", "Reset(%q) failed: %v: %s", l.start.FEN(), err, what())
			return false
		}
		active, unsure = false, false
		g = ref.NewGame(l.start)
		for _, m := range l.moves {
			if err := e.Move(ctx, m.String()); err != nil {
				c.Violate("api:move", "legal move %v rejected: %v: %s", m, err, what())
				return false
			}
			g.Push(m)
		}
		return true
	}
	check := func(op string) bool {
		c.Eval(1)
		c.Count("api_state_checks", 1)
		if got, want := e.Position(), g.Cur.FEN(); got != want {
			c.Violate("isolation:api-fen", "after %s the engine reports %q, its game is at %q: %s", op, got, want, what())
			return false
		}
		scratch, err := adapt.Board(zt0, g.Start)
		if err != nil {
			return true
		}
		for _, m := range g.Moves {
			if !adapt.Push(scratch, m) {
				return true
			}
		}
		a, b := adapt.TakeSnap(e.Board()), adapt.TakeSnap(scratch)
		var d string
		if g.EverDrawn {
			d = a.DiffNoResult(b) // a take-back may have cleared a draw the scratch line still carries
		} else {
			d = a.Diff(b)
		}
		if d != "" {
			c.Violate("isolation:api-state", "after %s the engine's game differs from the same game set up from scratch (%s): %s", op, d, what())
			return false
		}
		return true
	}
	if !setup(randomLine(r, idx)) || !check("set-up") {
		return
	}
	steps := 12 + r.Intn(30)
	for step := 0; step < steps; step++ {
		op := ""
		switch k := r.Intn(14); k {
		case 0, 1, 2: // a legal move
			ms := g.Cur.LegalMoves()
			if len(ms) == 0 {
				continue
			}
			var prev *ref.Move
			if n := len(g.Moves); n >= 2 {
				prev = &g.Moves[n-2]
			}
			m := gen.Pick(r, &g.Cur, ms, gen.Shuffly, prev)
			op = fmt.Sprintf("Move(%s)", m)
			log = append(log, op)
			if active {
				c.Count("api_move_during_analysis", 1)
			}
			if err := e.Move(ctx, m.String()); err != nil {
				c.Violate("api:move", "legal move %v rejected: %v: %s", m, err, what())
				return
			}
			g.Push(m)
			active, unsure = false, false
		case 12: // two callers offer different moves of the side to move at the same moment: one of them is played
			var ms []ref.Move
			for _, m := range g.Cur.LegalMoves() {
				if m.Kind == ref.KNormal || m.Kind == ref.KCapture || m.Kind == ref.KJump {
					ms = append(ms, m)
				}
			}
			if len(ms) < 2 {
				continue
			}
			i1 := r.Intn(len(ms))
			i2 := (i1 + 1 + r.Intn(len(ms)-1)) % len(ms)
			m1, m2 := ms[i1], ms[i2]
			// after either move the other must not be playable (same mover; avoid pairs where the second could
			// be a legal reply of the opponent: impossible, the from-square holds the first mover's piece)
			op = fmt.Sprintf("Move(%s) || Move(%s)", m1, m2)
			log = append(log, op)
			errs := make([]error, 2)
			done := make(chan struct{}, 2)
			for k, m := range []ref.Move{m1, m2} {
				go func(k int, s string) { errs[k] = e.Move(ctx, s); done <- struct{}{} }(k, m.String())
			}
			<-done
			<-done
			active, unsure = false, false
			c.Count("api_concurrent_moves", 1)
			switch {
			case errs[0] == nil && errs[1] == nil:
				c.Violate("api:concurrent-moves", "two moves of the same side, offered at the same moment, were both played (%v and %v): %s", m1, m2, what())
				return
			case errs[0] != nil && errs[1] != nil:
				c.Violate("api:concurrent-moves", "of two legal moves offered at the same moment neither was played (%v; %v): %s", errs[0], errs[1], what())
				return
			case errs[0] == nil:
				g.Push(m1)
			default:
				g.Push(m2)
			}
		case 3: // not a legal move
			s := []string{"e2e5", "a1a1", "xyz", "", "e7e8k", "0000"}[r.Intn(6)]
			if f, t, p, ok := ref.ParseMoveStr(s); ok {
				if _, legal := g.Cur.FindMove(f, t, p); legal {
					continue
				}
			}
			op = fmt.Sprintf("Move(%q)", s)
			log = append(log, op)
			// (a search is halted only once the string has parsed)
			_, _, _, parses := ref.ParseMoveStr(s)
			if err := e.Move(ctx, s); err == nil {
				c.Violate("api:move", "%q accepted: %s", s, what())
				return
			}
			if parses && active {
				unsure = true
			}
		case 4: // take back
			stopUsers() // a fork's contract: its origin does not take back below the fork point while it is in use
			op = "TakeBack"
			log = append(log, op)
			err := e.TakeBack(ctx)
			active, unsure = false, false
			if g.Plies() == 0 {
				if err == nil {
					c.Violate("api:takeback", "TakeBack succeeded without a move to take back: %s", what())
					return
				}
			} else {
				if err != nil {
					c.Violate("api:takeback", "TakeBack failed with %d moves played: %v: %s", g.Plies(), err, what())
					return
				}
				g.Pop()
				c.Count("api_takebacks", 1)
			}
		case 5: // another game, the same game again, or exactly the FEN the engine reports now
			stopUsers()
			var l lineGame
			switch r.Intn(3) {
			case 0:
				l = randomLine(r, r.Intn(100))
			case 1:
				l = lineGame{g.Start, append([]ref.Move{}, g.Moves...)}
			default:
				l = lineGame{g.Cur, nil}
				c.Count("api_reset_to_live_fen", 1)
			}
			op = "Reset"
			if !setup(l) {
				return
			}
		case 6, 7: // analyse
			o := searchctl.Options{}
			switch r.Intn(3) {
			case 0:
				o.DepthLimit = lang.Some(uint(1 + r.Intn(2)))
			case 1:
				o.DepthLimit = lang.Some(uint(0)) // unlimited
			default:
				if opts.Depth == 0 {
					o.DepthLimit = lang.Some(uint(1))
				}
			}
			op = fmt.Sprintf("Analyze(%v)", o.DepthLimit)
			log = append(log, op)
			out, err := e.Analyze(ctx, o)
			if unsure {
				unsure = false
				active = err != nil // refused: the earlier analysis is still there; accepted: it was halted
			}
			if active {
				if err == nil {
					c.Violate("api:analyze", "a second Analyze was accepted while one is active: %s", what())
					return
				}
			} else {
				if err != nil {
					c.Violate("api:analyze", "Analyze failed: %v: %s", err, what())
					return
				}
				active = true
				outs = append(outs, out)
				go func() {
					for range out {
					}
				}()
				c.Count("api_analyses", 1)
			}
		case 8: // halt
			op = "Halt"
			log = append(log, op)
			_, err := e.Halt(ctx)
			if unsure {
				unsure, active = false, err == nil
			}
			if (err == nil) != active {
				c.Violate("api:halt", "Halt returned %v with an analysis active = %v: %s", err, active, what())
				return
			}
			active = false
		case 9: // options
			switch r.Intn(3) {
			case 0:
				op = "SetHash"
				e.SetHash(uint(r.Intn(3)))
			case 1:
				op = "SetNoise"
				e.SetNoise(uint(r.Intn(2) * 20))
			default:
				op = "SetDepth"
				e.SetDepth(uint(1 + r.Intn(2)))
			}
			log = append(log, op)
		case 10: // hand out a fork and let a user play on it
			if len(users) >= 2 {
				continue
			}
			op = "Board()+user"
			log = append(log, op)
			b := e.Board()
			u := user{make(chan struct{}), make(chan struct{})}
			seed := r.Int63()
			go func() { defer close(u.done); userActivity(b, u.stop, seed) }()
			users = append(users, u)
			c.Count("api_user_forks", 1)
		case 11:
			if len(users) == 0 {
				continue
			}
			op = "user done"
			log = append(log, op)
			close(users[0].stop)
			<-users[0].done
			users = users[1:]
		default:
			op = "(pause)"
			time.Sleep(time.Duration(r.Intn(300)) * time.Microsecond)
		}
		if !check(op) {
			return
		}
	}
	c.Count("api_sessions", 1)
	c.Distinct(strings.Join(log, ";"))
	var _ = board.White
}
