package mon

import (
	"context"
	"fmt"
	"math/rand"
	"runtime"
	"sort"
	"sync"
	"sync/atomic"
	"time"

	"github.com/anishathalye/porcupine"
	"github.com/herohde/morlock/pkg/board"
	"github.com/herohde/morlock/pkg/engine"
	"github.com/herohde/morlock/pkg/eval"
	"github.com/herohde/morlock/pkg/search"
	"github.com/herohde/morlock/pkg/search/searchctl"
	"github.com/herohde/morlock/pkg/verifhook"
	"github.com/seekerror/stdlib/pkg/lang"

	"verif/fw"
	"verif/gen"
)

// C17 — the transposition table under concurrent use.

// payload is what a writer stores; every field is a function of (hash, writer, seq) so that a
// lookup result can be traced back to exactly one store, and a mixture of two stores is detected.
type ttPayload struct {
	hash   board.ZobristHash
	writer int
	seq    int
	bound  search.Bound
	ply    int
	depth  int
	score  eval.Score
	move   board.Move
}

// narrowPayloads makes all stores for one hash agree in everything but the score (the situation of a
// search re-storing the same node with a refined value): metadata then cannot tell two stores apart,
// only the score's redundant tag can.
var narrowPayloads atomic.Bool

func mkPayload(h board.ZobristHash, writer, seq int, r *rand.Rand) ttPayload {
	x := uint64(h)*0x9E3779B97F4A7C15 ^ uint64(writer)<<32 ^ uint64(seq)*0xBF58476D1CE4E5B9
	x ^= x >> 29
	p := ttPayload{hash: h, writer: writer, seq: seq}
	p.bound = search.Bound(x & 1)
	p.depth = int(r.Intn(12))
	p.ply = int(r.Intn(16))
	if r.Intn(8) == 0 {
		// the whole width of the entry's depth and ply fields (an unlimited analysis of a trivial position
		// runs through tens of thousands of iterations within a second)
		p.depth = []int{255, 256, 257, 300, 1000, 32767, 32768, 40000, 65535}[r.Intn(9)]
		p.ply = []int{0, 1, 255, 256, 1000, 65535}[r.Intn(6)]
	}
	p.move = board.Move{From: board.Square((x >> 8) & 63), To: board.Square((x >> 16) & 63), Promotion: board.Piece((x >> 24) % 6)}
	if narrowPayloads.Load() {
		y := uint64(h) * 0x9E3779B97F4A7C15
		p.bound = search.Bound(y & 1)
		p.depth, p.ply = int(y>>8)%4, int(y>>16)%4
		p.move = board.Move{From: board.Square((y >> 24) & 63), To: board.Square((y >> 32) & 63)}
	}
	if (x>>40)%4 == 0 {
		p.move = board.Move{} // a store without a best move (what a search writes for a leaf)
	}
	// the score carries the tag twice: Pawns = writer*65536+seq, Mate = a checksum of it
	p.score = eval.Score{Type: eval.Heuristic, Mate: tagSum(writer, seq), Pawns: eval.Pawns(float32(writer*65536 + seq))}
	return p
}

func tagSum(writer, seq int) int8 {
	return int8((writer*31 + seq*7 + 1) & 0x7f)
}

func (p ttPayload) val() int { return p.ply + p.depth<<1 } // (no wrap: deeper and later is worth more)

func tagOf(s eval.Score) (int, int) {
	v := int(float32(s.Pawns))
	return v / 65536, v % 65536
}

// ttOp is one recorded operation.
type ttOp struct {
	client int
	write  bool
	hash   board.ZobristHash
	p      ttPayload // for writes
	stored bool      // Write result
	found  bool      // Read result
	tagW   int       // Read: tag of the tuple returned
	tagQ   int
	call   int64
	ret    int64
}

type slotState struct {
	used bool
	hash board.ZobristHash
	w, q int
	val  int
}

func ttModel(mask uint64) porcupine.Model {
	return porcupine.Model{
		Partition: func(history []porcupine.Operation) [][]porcupine.Operation {
			m := map[uint64][]porcupine.Operation{}
			for _, o := range history {
				op := o.Input.(ttOp)
				m[uint64(op.hash)&mask] = append(m[uint64(op.hash)&mask], o)
			}
			var keys []uint64
			for k := range m {
				keys = append(keys, k)
			}
			sort.Slice(keys, func(i, j int) bool { return keys[i] < keys[j] })
			var ret [][]porcupine.Operation
			for _, k := range keys {
				ret = append(ret, m[k])
			}
			return ret
		},
		Init: func() interface{} { return slotState{} },
		Step: func(state, input, output interface{}) (bool, interface{}) {
			st := state.(slotState)
			in := input.(ttOp)
			out := output.(ttOp)
			if in.write {
				// a store replaces the entry iff its replacement value is not smaller
				if st.used && st.val > in.p.val() {
					return !out.stored, st
				}
				return out.stored, slotState{used: true, hash: in.hash, w: in.p.writer, q: in.p.seq, val: in.p.val()}
			}
			if st.used && st.hash == in.hash {
				return out.found && out.tagW == st.w && out.tagQ == st.q, st
			}
			return !out.found, st
		},
		Equal: func(a, b interface{}) bool { return a.(slotState) == b.(slotState) },
		DescribeOperation: func(input, output interface{}) string {
			in, out := input.(ttOp), output.(ttOp)
			if in.write {
				return fmt.Sprintf("Write(h=%d, w%d#%d val=%d) -> %v", in.hash, in.p.writer, in.p.seq, in.p.val(), out.stored)
			}
			return fmt.Sprintf("Read(h=%d) -> found=%v w%d#%d", in.hash, out.found, out.tagW, out.tagQ)
		},
	}
}

// hookPolicy perturbs the goroutines at the table's hook points.
func installTTHooks(seed int64, intensity int) func() {
	var n atomic.Uint64
	verifhook.Set(func(name string) {
		switch name {
		case "tt.write.loaded", "tt.read", "tt.write.swapped":
			x := n.Add(1)*0x9E3779B97F4A7C15 + uint64(seed)
			x ^= x >> 31
			switch {
			case int(x%100) < intensity:
				runtime.Gosched()
			case int(x%1000) < intensity/4:
				time.Sleep(time.Microsecond * time.Duration(x%50))
			}
		}
	})
	return func() { verifhook.Set(nil) }
}

func runTTHistory(c *fw.Ctx, r *rand.Rand, slots, clients, opsPer, hashesPerSlot int, check bool, what string) {
	ctx := context.Background()
	tt := search.NewTranspositionTable(ctx, uint64(32*slots))
	if tt.Size() != uint64(32*slots) {
		c.Violate("tt:size", "table of %d bytes reports size %d", 32*slots, tt.Size())
		return
	}
	mask := uint64(slots - 1)
	var hashes []board.ZobristHash
	for s := 0; s < slots; s++ {
		if r.Intn(2) == 0 {
			for k := 0; k < hashesPerSlot; k++ {
				hashes = append(hashes, board.ZobristHash(uint64(s)+uint64(k+1)*uint64(slots)*977))
			}
			continue
		}
		// relatives of one full-width hash that share the slot and most of their bits: an entry is only the
		// asker's if the whole 64-bit hash matches (any shortened or folded comparison confuses some pair)
		b := r.Uint64()&^mask | uint64(s)
		d := (uint64(r.Uint32()) | 1<<20) &^ mask & 0xffffffff
		rel := []uint64{b, b ^ (d<<32 | d), b ^ 1<<63, b ^ 1<<uint(32+r.Intn(31)), (b + d<<32) - d, b ^ (d << 32), b ^ 1<<uint(16+r.Intn(16))}
		r.Shuffle(len(rel)-1, func(i, j int) { rel[i+1], rel[j+1] = rel[j+1], rel[i+1] })
		for k := 0; k < hashesPerSlot; k++ {
			hashes = append(hashes, board.ZobristHash(rel[k%len(rel)]))
		}
	}
	var clock atomic.Int64
	logs := make([][]ttOp, clients)
	written := make([]map[int]ttPayload, clients) // by seq
	var usedBad atomic.Int64
	var wg sync.WaitGroup
	start := make(chan struct{})
	seeds := make([]int64, clients)
	for i := range seeds {
		seeds[i] = r.Int63()
	}
	for cl := 0; cl < clients; cl++ {
		wg.Add(1)
		written[cl] = map[int]ttPayload{}
		go func(cl int) {
			defer wg.Done()
			rr := rand.New(rand.NewSource(seeds[cl]))
			<-start
			for i := 0; i < opsPer; i++ {
				h := hashes[rr.Intn(len(hashes))]
				op := ttOp{client: cl, hash: h}
				if rr.Intn(100) < 55 {
					op.write = true
					op.p = mkPayload(h, cl+1, i+1, rr)
					written[cl][i+1] = op.p
					op.call = clock.Add(1)
					op.stored = tt.Write(h, op.p.bound, op.p.ply, op.p.depth, op.p.score, op.p.move)
					op.ret = clock.Add(1)
				} else {
					op.call = clock.Add(1)
					bound, depth, score, move, ok := tt.Read(h)
					op.ret = clock.Add(1)
					op.found = ok
					if ok {
						op.tagW, op.tagQ = tagOf(score)
						op.p = ttPayload{bound: bound, depth: depth, score: score, move: move}
					}
				}
				if u := tt.Used(); u < 0 || u > 1 {
					usedBad.Add(1)
				}
				logs[cl] = append(logs[cl], op)
			}
		}(cl)
	}
	close(start)
	wg.Wait()

	// (b) every successful lookup returns exactly one store's tuple for that hash
	nops, reads, hits, stores := 0, 0, 0, 0
	maxVal := map[uint64]int{}
	for cl := range logs {
		for _, op := range logs[cl] {
			nops++
			if op.write {
				if op.stored {
					stores++
				}
				s := uint64(op.hash) & mask
				if v, ok := maxVal[s]; !ok || op.p.val() > v {
					maxVal[s] = op.p.val()
				}
				continue
			}
			reads++
			if !op.found {
				continue
			}
			hits++
			if op.tagW == -1 {
				c.Violate("tt:mixed-tuple", "Read(%d) returned a score whose parts belong to different stores (%v): %s", op.hash, op.p.score, what)
				continue
			}
			var w ttPayload
			ok := op.tagW >= 1 && op.tagW <= clients
			if ok {
				w, ok = written[op.tagW-1][op.tagQ]
			}
			if !ok {
				c.Violate("tt:phantom", "Read(%d) returned score tag w%d#%d that nobody wrote: %s", op.hash, op.tagW, op.tagQ, what)
				continue
			}
			if w.hash != op.hash {
				c.Violate("tt:wrong-hash", "Read(%d) returned the tuple stored for hash %d: %s", op.hash, w.hash, what)
			}
			if w.bound != op.p.bound || w.depth != op.p.depth || w.move.From != op.p.move.From || w.move.To != op.p.move.To || w.move.Promotion != op.p.move.Promotion {
				c.Violate("tt:mixed-tuple", "Read(%d) returned (bound %v, depth %d, move %v-%v=%v) with the score of store w%d#%d, which wrote (bound %v, depth %d, move %v-%v=%v): %s",
					op.hash, op.p.bound, op.p.depth, op.p.move.From, op.p.move.To, op.p.move.Promotion, w.writer, w.seq, w.bound, w.depth, w.move.From, w.move.To, w.move.Promotion, what)
			}
		}
	}
	c.Eval(1)
	c.Count("histories", 1)
	c.Count("ops", nops)
	c.Count("read_hits", hits)
	c.Count("stores_accepted", stores)
	if usedBad.Load() > 0 {
		c.Violate("tt:used-range", "Used() left [0,1] %d times during: %s", usedBad.Load(), what)
	}
	// (d) at quiescence: fill fraction counts every occupied slot once; the surviving entry of each slot
	// has the maximal replacement value ever offered to it
	occupied := 0
	for s := 0; s < slots; s++ {
		if _, ok := maxVal[uint64(s)]; ok {
			occupied++
		}
	}
	if got, want := tt.Used(), float64(occupied)/float64(slots); got != want {
		c.Violate("tt:used-count", "Used()=%v after the run, %d of %d slots were written: %s", got, occupied, slots, what)
	}
	for s, mv := range maxVal {
		found := false
		for _, h := range hashes {
			if uint64(h)&mask != s {
				continue
			}
			if _, depth, score, _, ok := tt.Read(h); ok {
				found = true
				w, q := tagOf(score)
				if w >= 1 && w <= clients {
					if p, ok := written[w-1][q]; ok && p.val() != mv {
						c.Violate("tt:replacement", "slot %d ends with an entry of replacement value %d (depth %d) although a store with value %d was offered: %s", s, p.val(), depth, mv, what)
					}
				}
			}
		}
		if !found {
			c.Violate("tt:lost-slot", "slot %d was written but no hash of it can be read back: %s", s, what)
		}
	}
	// (c) linearizability of the recorded history per slot
	if check {
		var ops []porcupine.Operation
		for cl := range logs {
			for _, op := range logs[cl] {
				ops = append(ops, porcupine.Operation{ClientId: cl, Input: op, Call: op.call, Output: op, Return: op.ret})
			}
		}
		res, _ := porcupine.CheckOperationsVerbose(ttModel(mask), ops, 20*time.Second)
		switch res {
		case porcupine.Ok:
			c.Count("linearizable_histories", 1)
		case porcupine.Illegal:
			c.Violate("tt:not-linearizable", "history of %d operations by %d clients on %d slots is not linearizable w.r.t. the sequential table model: %s", len(ops), clients, slots, what)
		default:
			c.Inconclusive("linearizability check timed out: %s", what)
		}
	}
	c.DistinctHash(uint64(clock.Load())<<20 ^ uint64(stores)<<8 ^ uint64(hits))
}

func runC17(c *fw.Ctx, cs fw.Case) {
	r := cs.Rand()
	ctx := context.Background()
	switch cs.Kind {
	case "lin", "linplain":
		defer installTTHooks(cs.Seed, []int{0, 20, 60}[cs.Idx%3])()
		narrowPayloads.Store(cs.Idx%4 == 3)
		defer narrowPayloads.Store(false)
		for i := 0; i < cs.N; i++ {
			slots := []int{1, 1, 2, 4, 8}[r.Intn(5)]
			clients := 2 + r.Intn(5)
			ops := 30 + r.Intn(60)
			hps := 1 + r.Intn(4)
			what := fmt.Sprintf("%d slots, %d clients x %d ops, %d hashes per slot, seed %d/%d", slots, clients, ops, hps, cs.Seed, i)
			runTTHistory(c, r, slots, clients, ops, hps, true, what)
			if i == 0 && cs.Idx%16 == 0 {
				c.Sample(map[string]any{"kind": "linearizability history", "slots": slots, "clients": clients, "ops_per_client": ops, "hashes_per_slot": hps})
			}
		}
	case "stress", "stressplain":
		defer installTTHooks(cs.Seed, []int{0, 10, 40}[cs.Idx%3])()
		narrowPayloads.Store(cs.Idx%2 == 1)
		defer narrowPayloads.Store(false)
		for i := 0; i < cs.N; i++ {
			slots := []int{1, 1, 2, 8}[r.Intn(4)]
			clients := 4 + r.Intn(13)
			ops := 500 + r.Intn(3000)
			hps := 1 + r.Intn(3)
			what := fmt.Sprintf("stress %d slots, %d clients x %d ops, %d hashes per slot, seed %d/%d", slots, clients, ops, hps, cs.Seed, i)
			runTTHistory(c, r, slots, clients, ops, hps, false, what)
		}
	case "fill":
		defer installTTHooks(cs.Seed, 5)()
		for i := 0; i < cs.N; i++ {
			bits := 10 + r.Intn(5)
			slots := 1 << bits
			tt := search.NewTranspositionTable(ctx, uint64(32*slots))
			clients := 8 + r.Intn(9)
			var wg sync.WaitGroup
			var bad atomic.Int64
			stop := make(chan struct{})
			go func() {
				for {
					select {
					case <-stop:
						return
					default:
						if u := tt.Used(); u < 0 || u > 1 {
							bad.Add(1)
						}
					}
				}
			}()
			for cl := 0; cl < clients; cl++ {
				wg.Add(1)
				go func(cl int) {
					defer wg.Done()
					off := cl * 7919
					for k := 0; k < slots; k++ {
						h := board.ZobristHash((k*31 + off) % slots)
						tt.Write(h, search.ExactBound, cl, 1, eval.HeuristicScore(eval.Pawns(cl)), board.Move{})
					}
				}(cl)
			}
			wg.Wait()
			close(stop)
			c.Eval(1)
			c.Count("fills", 1)
			c.Count("ops", clients*slots)
			c.DistinctHash(uint64(slots)<<8 | uint64(clients) | uint64(cs.Seed)<<20)
			if u := tt.Used(); u != 1 {
				c.Violate("tt:used-count", "after %d clients wrote every one of %d slots, Used() = %v (%.0f slots counted)", clients, slots, u, u*float64(slots))
			}
			if bad.Load() > 0 {
				c.Violate("tt:used-range", "Used() left [0,1] during the fill")
			}
		}
	case "bigtable":
		// sizes nobody tests with: a table of 1 GiB (Hash 1024; the option goes to 16384) and sizes that are not
		// powers of two; several goroutines make the table's very first stores and lookups together
		for i := 0; i < cs.N; i++ {
			size := []uint64{1 << 30, 3 << 20, 48 << 20, 1 << 30}[(i+cs.Idx)%4]
			tt := search.NewTranspositionTable(ctx, size)
			if tt.Size() > size || tt.Size() == 0 {
				c.Violate("tt:size", "table asked for %d bytes reports size %d", size, tt.Size())
				continue
			}
			slots := tt.Size() / 32
			var wg sync.WaitGroup
			start := make(chan struct{})
			var bad atomic.Int64
			var note atomic.Value
			for g := 0; g < 6; g++ {
				wg.Add(1)
				go func(g int) {
					defer wg.Done()
					rr := rand.New(rand.NewSource(fw.Mix(cs.Seed, int64(g))))
					<-start
					for k := 0; k < 400; k++ {
						h := board.ZobristHash(rr.Uint64())
						if g%2 == 0 {
							p := mkPayload(h, g+1, k+1, rr)
							tt.Write(h, p.bound, p.ply, p.depth, p.score, p.move)
							if _, d, sc, _, ok := tt.Read(h); ok {
								if w, q := tagOf(sc); (w != g+1 || q != k+1 || d != p.depth) && tagSum(w, q) == sc.Mate {
									// (another writer may have taken the slot: then the tag is that writer's, consistently)
									if w == g+1 {
										bad.Add(1)
										note.Store(fmt.Sprintf("own store w%d#%d depth %d read back as #%d depth %d", g+1, k+1, p.depth, q, d))
									}
								}
							}
						} else {
							if _, _, sc, _, ok := tt.Read(h); ok {
								if w, q := tagOf(sc); tagSum(w, q) != sc.Mate {
									bad.Add(1)
									note.Store(fmt.Sprintf("lookup of a never-stored hash returned a tuple with inconsistent tag %v", sc))
								}
							}
						}
						if u := tt.Used(); u < 0 || u > 1 {
							bad.Add(1)
							note.Store(fmt.Sprintf("Used() = %v", u))
						}
					}
				}(g)
			}
			close(start)
			wg.Wait()
			c.Eval(1)
			c.Count("big_tables", 1)
			c.Count("ops", 6*400)
			c.DistinctHash(size ^ uint64(cs.Seed)<<8 ^ uint64(i))
			if bad.Load() > 0 {
				c.Violate("tt:big-table", "table of %d bytes (%d slots), first use by six goroutines at once: %v", size, slots, note.Load())
			}
			if u := tt.Used(); u*float64(slots) > 3*400+0.5 {
				c.Violate("tt:used-count", "after at most %d stores Used() counts %.0f slots of %d", 3*400, u*float64(slots), slots)
			}
		}
	case "enginefill":
		// the fill fraction as an engine reports it (PV.Hash, UCI hashfull) over several games on one engine:
		// a new game starts from an empty table, so each analysis must report, depth by depth, the fill a
		// freshly started engine reports for the same analysis
		fills := func(e *engine.Engine, h gen.Hist, depth int) (map[int]float64, bool) {
			if e.Reset(ctx, h.Start.FEN()) != nil {
				return nil, false
			}
			for _, m := range h.Moves {
				if e.Move(ctx, m.String()) != nil {
					return nil, false
				}
			}
			out, err := e.Analyze(ctx, searchctl.Options{DepthLimit: lang.Some(uint(depth))})
			if err != nil {
				return nil, false
			}
			ret := map[int]float64{}
			pvs, closed := drain(out, 120*time.Second)
			e.Halt(ctx)
			if !closed {
				return nil, false
			}
			for _, pv := range pvs {
				ret[pv.Depth] = pv.Hash
			}
			return ret, true
		}
		for i := 0; i < cs.N; i++ {
			rc := &recipes[r.Intn(len(recipes))]
			opts := engine.Options{Hash: uint([]int{1, 1, 2, 3, 4}[r.Intn(5)])}
			e := rc.newEngine(ctx, opts, 0, nil)
			games := 3 + r.Intn(3)
			var prev gen.Hist
			for g := 0; g < games; g++ {
				h, _ := c11Root(r, i+g+cs.Idx)
				if g > 0 && r.Intn(2) == 0 {
					h = prev // the same game again
				}
				prev = h
				b, ok := boardOf(h)
				if !ok || legalCount(b) == 0 {
					continue
				}
				n0, n1 := branching(b, 0)
				depth := depthFor(n0, n1, 4000, 4)
				if rc.name == "turochamp" && depth > 2 {
					depth = 2
				}
				got, ok1 := fills(e, h, depth)
				want, ok2 := fills(rc.newEngine(ctx, opts, 0, nil), h, depth)
				if !ok1 || !ok2 {
					continue
				}
				c.Eval(1)
				c.Count("engine_fill_games", 1)
				if g > 0 {
					c.Count("engine_fill_later_games", 1)
				}
				what := fmt.Sprintf("engine %s hash %d MB, game %d of %d on the same engine, depth %d, %s", rc.name, opts.Hash, g+1, games, depth, histDesc(h))
				c.Distinct(what)
				for d, f := range got {
					if f < 0 || f > 1 {
						c.Violate("tt:used-range", "reported fill %v at depth %d outside [0,1]: %s", f, d, what)
					}
					if f > 0 {
						c.Count("engine_fill_nonzero", 1)
					}
					if w, ok := want[d]; ok && w != f {
						c.Violate("tt:engine-fill", "fill %v reported at depth %d, a freshly started engine reports %v for the same analysis (slots counted that are not in use, or counted twice): %s", f, d, w, what)
						break
					}
				}
			}
		}
	case "search":
		// several searches share one table concurrently; each must still return the table-less value
		var pd []searchCfg
		for _, cf := range searchCfgs {
			if cf.posDetermined && !cf.quiet {
				pd = append(pd, cf)
			}
		}
		for i := 0; i < cs.N; i++ {
			cfg := pd[r.Intn(len(pd))]
			inner, tname := newTable(ctx, r.Intn(7))
			k := 2 + r.Intn(4)
			type job struct {
				h     interface{}
				depth int
			}
			h, tag := c11Root(r, i+cs.Idx)
			b0, ok := boardOf(h)
			if !ok {
				continue
			}
			n0, n1 := branching(b0, cfg.limit)
			depth := ttSafeDepth(h, depthFor(n0, n1, 3000, 5))
			what := fmt.Sprintf("%d concurrent searches, config %s depth %d table %s %s (%s)", k, cfg.name, depth, tname, histDesc(h), tag)
			s0, _, _ := cfg.mk()
			nb, _ := boardOf(h)
			want, _, _, err := abValue(s0, nb, depth)
			if err != nil {
				continue
			}
			var wg sync.WaitGroup
			results := make([]eval.Score, k)
			errs := make([]error, k)
			for j := 0; j < k; j++ {
				wg.Add(1)
				go func(j int) {
					defer wg.Done()
					s, _, _ := cfg.mk()
					b, _ := boardOf(h)
					d := depth
					if j%2 == 1 && d > 1 {
						d-- // neighbours at another depth share entries too
					}
					_, sc, _, err := s.Search(budgetCtx(), &search.Context{Alpha: eval.NegInfScore, Beta: eval.InfScore, TT: inner}, b, d)
					if d == depth {
						results[j], errs[j] = sc, err
					} else {
						errs[j] = fmt.Errorf("other depth")
					}
				}(j)
			}
			wg.Wait()
			c.Eval(1)
			c.Count("concurrent_search_groups", 1)
			c.Distinct(what)
			for j := range results {
				if errs[j] == nil && !sameScore(results[j], want) {
					c.Violate("tt:concurrent-search", "search %d of %s returns %v, the table-less value is %v", j, what, results[j], want)
				}
			}
			if u := inner.Used(); u < 0 || u > 1 {
				c.Violate("tt:used-range", "Used() = %v after %s", u, what)
			}
		}
	}
}

func init() {
	fw.Register(&fw.Monitor{
		ID:          "C17",
		Level:       "exploration",
		RaceKinds:   map[string]bool{"lin": true, "stress": true, "fill": true, "search": true, "bigtable": true},
		Technique:   "race detector + offline linearizability checking (porcupine) of recorded Read/Write histories against a sequential slot model, tagged payloads for tuple integrity, quiescent-point checks of the fill counter, hook-point perturbation of the CAS loop",
		Rule:        "bigtable: tables of 1 GiB, 3 MiB and 48 MiB (sizes that are not the usual small powers of two) first used by six goroutines at once (race build); enginefill: 3-5 games in a row on one engine (four recipes, hash 1-4 MB): the fill reported with every iteration is in [0,1] and equals, depth by depth, what a freshly started engine reports for the same analysis; histories: tables of 1-8 slots, 2-6 clients x 30-90 operations (55% Write / 45% Read) over 1-4 hashes per slot, call/return stamped from one atomic counter, checked per slot with porcupine (timeout => inconclusive); stress: 4-16 clients x 500-3500 operations with tuple-integrity, final-replacement-value and fill-count checks; fill: every slot of 2^10..2^14-slot tables written by 8-16 clients, Used() must be exactly 1; search: 2-5 concurrent alpha-beta searches sharing a table must return the table-less value; the same histories run in the plain build (faster, more interleavings) and the -race build; yields/sleeps injected at tt.read / tt.write.loaded / tt.write.swapped; distinct = distinct histories by (event count, accepted stores, hits)",
		Assumptions: []string{"sequential model: a slot holds nothing or (hash, payload, value); Write stores iff value(new) >= value(current) and reports it; Read(h) returns the payload iff the slot's hash is h", "porcupine v1.3.0", "depth and ply within the entry's 16-bit fields (0..65535)"},
		Timeout:     minutes(15, 120),
		Cases: func(tier string, seed int64) []fw.Case {
			l := mkCases(nil, "lin", 16, seed, pick(tier, 25, 5000))
			l = mkCases(l, "linplain", 16, seed, pick(tier, 60, 12000))
			l = mkCases(l, "stress", 16, seed, pick(tier, 4, 200))
			l = mkCases(l, "stressplain", 16, seed, pick(tier, 12, 600))
			l = mkCases(l, "fill", 8, seed, pick(tier, 2, 60))
			l = mkCases(l, "enginefill", 8, seed, pick(tier, 4, 150))
			l = mkCases(l, "bigtable", 2, seed, pick(tier, 2, 8))
			l = mkCases(l, "search", 16, seed, pick(tier, 6, 300))
			return l
		},
		Floors: func(string) map[string]int64 {
			return map[string]int64{"histories": 1000, "linearizable_histories": 800, "ops": 1000000, "read_hits": 50000, "fills": 10, "concurrent_search_groups": 50, "engine_fill_later_games": 40, "engine_fill_nonzero": 40, "big_tables": 4}
		},
		Run: runC17,
	})
}
