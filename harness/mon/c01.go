package mon

import (
	"context"
	"fmt"
	"math/rand"

	"github.com/herohde/morlock/pkg/board"
	"github.com/herohde/morlock/pkg/board/fen"
	"github.com/herohde/morlock/pkg/eval"
	"github.com/herohde/morlock/pkg/search"

	"verif/adapt"
	"verif/fw"
	"verif/gen"
	"verif/ref"
)

// C01 — legal move generation equals the FIDE legal-move set, with correct metadata.
// C02 — playing a move yields the successor the rules prescribe; all views agree; source untouched.
// Both are decided by walking game trees and playouts in lock-step with the reference oracle.

// walkCases builds the shared C01/C02 case list; div shrinks the thorough sizes.
// C02 does ~30x the work per position (every edge, every view), so it passes div > 1.
func walkCases(tier string, seed int64, div int) []fw.Case {
	{
		var l []fw.Case
		// full-tree differential perft from curated roots (one case per root), depth by tier
		for i := range gen.StartFENs {
			l = append(l, fw.Case{Idx: len(l), Kind: "tree", N: i, Seed: fw.Mix(seed, int64(i))})
		}
		if div == 1 {
			for i := range ref.PerftTable {
				l = append(l, fw.Case{Idx: len(l), Kind: "perft", N: i})
			}
		}
		l = mkCases(l, "synthtree", 32, seed, pick(tier, 40, 3000/div))
		l = mkCases(l, "playout", 32, seed, pick(tier, 25, 2500/div))
		l = mkCases(l, "tactic", 16, seed, pick(tier, 100, 5000/div))
		l = mkCases(l, "shared", 8, seed, pick(tier, 12, 1200/div))
		if div == 1 {
			l = mkCases(l, "boardplay", 16, seed, pick(tier, 120, 6000))
		}
		l = mkCases(l, "corner", 8, seed, pick(tier, 6, 200/div)) // (added last: the cases before keep their seeds)
		return l
	}
}

func init() {
	casesFn := func(tier string, seed int64) []fw.Case { return walkCases(tier, seed, 1) }
	casesC02 := func(tier string, seed int64) []fw.Case { return walkCases(tier, seed, 6) }
	fw.Register(&fw.Monitor{
		ID:        "C01",
		Level:     "exploration",
		Technique: "runtime differential oracle: lock-step tree walk (differential perft) and random playouts against an independent mailbox rules implementation",
		Rule: "every node of full legal game trees (curated roots incl. the six published perft positions, depth 2-3 quick / 3-4 thorough; synthetic odd-material roots depth 1-2), " +
			"every ply of random playouts and 14 constructed tactical shapes (pins, double check, e.p. exposing the king along the rank or a diagonal, castling under attack ...); boardplay: games played on a game board, at every ply the moves Board.PushMove accepts vs the oracle (incl. plies right after an e.p. capture that gives check); shared: walks repeated after each of the four engines' searches/filters ran in the same process (package-level piece lists compared with their start-up contents); at each node the legal (from,to,promotion) multiset and each move's kind/piece/capture are compared with the oracle; distinct = distinct position keys (placement, side, rights, e.p.)",
		Assumptions: []string{"reference rules implementation (package ref), validated against published perft numbers at start-up", "2^-64 hash collisions in the distinct-position counter ignored"},
		Setup:       validateOracle,
		Timeout:     minutes(10, 90),
		Cases:       casesFn,
		Floors: func(string) map[string]int64 {
			return map[string]int64{
				"positions": 20000, "corner_rook_roots": 10, "in_check": 500, "double_check": 5, "pinned_piece_positions": 100,
				"ep_legal": 20, "ep_illegal_by_check": 1, "castle_legal": 50, "castle_blocked_by_attack": 10,
				"promotions": 100, "capture_promotions": 20, "stalemate": 1, "checkmate": 1, "perft_checks": 18, "shared_walks": 100, "shared_roots_with_ep": 3, "shared_roots_with_promotion": 3, "board_plies": 20000, "board_plies_after_ep": 100, "board_plies_in_check_after_ep": 20,
			}
		},
		Run: func(c *fw.Ctx, cs fw.Case) { runWalk(c, cs, false) },
	})
	fw.Register(&fw.Monitor{
		ID:          "C02",
		Level:       "exploration",
		Technique:   "runtime differential oracle + internal-consistency invariants checked at every ply of lock-step tree walks and long playouts",
		Rule:        "every edge (position, legal move) of the same walks as C01 (incl. the walks run after the four engines have searched in the same process) plus long histories: successor compared with the oracle on all 64 squares, per-piece/per-colour/occupancy sets, rotated occupancy rebuilt from scratch, castling rights, e.p. target, attack queries on 64 squares x 2 colours (sampled), FEN; the source position is value-compared before/after; illegal attempts must leave it untouched; distinct = distinct (position key, move) edges",
		Assumptions: []string{"reference rules implementation (package ref), validated against published perft numbers at start-up"},
		Setup:       validateOracle,
		Timeout:     minutes(10, 90),
		Cases:       casesC02,
		Floors: func(string) map[string]int64 {
			return map[string]int64{
				"edges": 20000, "corner_rook_roots": 10, "edge_castle": 50, "edge_ep": 20, "edge_promotion": 100, "edge_rook_captured_on_home_with_right": 5,
				"edge_jump": 500, "rights_lost_transitions": 100, "illegal_attempts": 500, "shared_walks": 100, "shared_roots_with_ep": 3, "shared_roots_with_promotion": 3,
			}
		},
		Run: func(c *fw.Ctx, cs fw.Case) { runWalk(c, cs, true) },
	})
}

// pieceLists: the exported piece lists of package board as they read at start-up.
var pieceLists = func() []struct {
	name string
	cur  *[]board.Piece
	want string
} {
	l := []struct {
		name string
		cur  *[]board.Piece
		want string
	}{
		{"AllPieces", &board.AllPieces, ""}, {"KingQueen", &board.KingQueen, ""}, {"KingQueenRookKnightBishop", &board.KingQueenRookKnightBishop, ""},
		{"QueenRookBishop", &board.QueenRookBishop, ""}, {"QueenRookKnightBishop", &board.QueenRookKnightBishop, ""}, {"QueenRookKnightBishopPawn", &board.QueenRookKnightBishopPawn, ""},
	}
	for i := range l {
		l[i].want = fmt.Sprint(*l[i].cur)
	}
	return l
}()

func runWalk(c *fw.Ctx, cs fw.Case, succ bool) {
	r := cs.Rand()
	switch cs.Kind {
	case "perft":
		// published node counts: an anchor outside both implementations
		e := ref.PerftTable[cs.N]
		p := ref.MustFEN(e.FEN)
		pos, err := adapt.Position(p)
		if err != nil {
			c.Violate("newposition", "NewPosition failed for %s: %v", e.FEN, err)
			return
		}
		maxd := 3
		if !c.Quick() {
			maxd = len(e.Counts)
		}
		for d := 1; d <= maxd && d <= len(e.Counts); d++ {
			n := perftSUT(pos, adapt.BColor(p.White), d)
			c.Eval(1)
			c.Count("perft_nodes", int(n))
			c.Count("perft_checks", 1)
			if n != e.Counts[d-1] {
				c.Violate("movegen:perft", "perft(%d) of %s (%s) = %d, published value %d", d, e.Name, e.FEN, n, e.Counts[d-1])
			}
		}
	case "tree":
		p := ref.MustFEN(gen.StartFENs[cs.N])
		depth := 2
		if !c.Quick() {
			depth = 3
		}
		// small trees can afford one more ply
		if len(p.LegalMoves()) <= 24 {
			depth++
		}
		pos, err := adapt.Position(p)
		if err != nil {
			c.Violate("newposition", "NewPosition failed for %s: %v", p.FEN(), err)
			return
		}
		walkTree(c, p, pos, depth, succ)
		if cs.N < 2 {
			c.Sample(map[string]any{"kind": "tree", "root": p.FEN(), "depth": depth})
		}
	case "synthtree":
		for i := 0; i < cs.N; i++ {
			p := gen.SynthOK(r)
			pos, err := adapt.Position(p)
			if err != nil {
				c.Violate("newposition", "NewPosition failed for %s: %v", p.FEN(), err)
				continue
			}
			d := 1
			if i%4 == 0 {
				d = 2
			}
			walkTree(c, p, pos, d, succ)
			if i == 0 && cs.Idx%8 == 0 {
				c.Sample(map[string]any{"kind": "synthtree", "root": p.FEN(), "depth": d})
			}
		}
	case "playout":
		for i := 0; i < cs.N; i++ {
			h := randomHist(r, 0)
			plies := 20 + r.Intn(180)
			if i%10 == 0 {
				plies = 300
			}
			walkPlayout(c, r, h.Start, plies, gen.Biases[i%len(gen.Biases)], succ)
		}
	case "boardplay":
		// the game board's own legality filter (Board.PushMove, which the engine's Move and the searches rely
		// on) along played games: at every ply the pseudo-legal moves it accepts are exactly the legal ones
		for i := 0; i < cs.N; i++ {
			var start ref.Pos
			bias := gen.Biases[i%len(gen.Biases)]
			switch i % 4 {
			case 0:
				start = gen.TacticOK(r, []int{14, 14, 13, 2, 3}[r.Intn(5)])
				bias = gen.Bias{Capture: 4, Check: 2, Promo: 2, Castle: 2, EP: 400, Quiet: 1, PawnMove: 8}
			case 1:
				start = gen.TacticOK(r, r.Intn(gen.NumTactics))
			default:
				h := randomHist(r, 0)
				start = h.Start
			}
			walkBoardPlayout(c, r, start, 4+r.Intn(60), bias)
		}
	case "shared":
		// Positions are values; the engines (searches, evaluators, move filters of all four programs) run in
		// the same process and read the same package-level tables. After each of them has worked on a
		// position, every other position must still be played and queried exactly as the rules say.
		ctx := context.Background()
		for i := 0; i < cs.N; i++ {
			rc := &recipes[(i+cs.Idx)%len(recipes)]
			root := gen.TacticOK(r, []int{2, 3, 6, 6, 13, 4, 9}[r.Intn(7)])
			if r.Intn(3) == 0 {
				h := randomHist(r, r.Intn(40))
				root = ref.NewGameFrom(h.Start, h.Moves).Cur
			}
			if b, ok := boardOf(gen.Hist{Start: root}); ok && len(root.LegalMoves()) > 0 {
				d := 1 + r.Intn(2)
				sctx := &search.Context{Alpha: eval.NegInfScore, Beta: eval.InfScore, TT: search.NoTranspositionTable{}, Noise: eval.Random{}}
				rc.build(idWrap).Search(ctx, sctx, b, d)
				c.Count("shared_engine_runs_"+rc.name, 1)
				for _, m := range root.LegalMoves() {
					if m.Kind == ref.KEnPassant {
						c.Count("shared_roots_with_ep", 1)
						break
					}
					if m.Promo != 0 {
						c.Count("shared_roots_with_promotion", 1)
						break
					}
				}
			}
			for _, l := range pieceLists {
				if fmt.Sprint(*l.cur) != l.want {
					c.Violate("shared:piece-list", "after a %s search on %q the package-level piece list board.%s reads %v, it was %v at start-up", rc.name, root.FEN(), l.name, *l.cur, l.want)
				}
			}
			// kings and pawns close to each other: the attacks that matter for legality
			for k := 0; k < 3; k++ {
				p := gen.TacticOK(r, []int{10, 11, 4, 5, 13, 0}[r.Intn(6)])
				if k == 0 {
					if q, ok := gen.BoxedKing(r); ok {
						p = q
					}
				}
				pos, err := adapt.Position(p)
				if err != nil {
					continue
				}
				walkTree(c, p, pos, 1, succ)
				c.Count("shared_walks", 1)
			}
		}
	case "corner":
		// a home rook with its right is captured and replaced by the side's other rook: walked three plies deep on the
		// engine's own successors, so that the node after "capture, recapture, anything" is compared with the rules
		for i := 0; i < cs.N; i++ {
			p, ok := gen.CornerRook(r)
			if !ok {
				continue
			}
			pos, err := adapt.Position(p)
			if err != nil {
				c.Violate("newposition", "NewPosition failed for %s: %v", p.FEN(), err)
				continue
			}
			c.Count("corner_rook_roots", 1)
			d := 3
			if succ {
				d = 2 // the successor comparison sees the lost right on the capture edge itself
			}
			walkTree(c, p, pos, d, succ)
		}
	case "tactic":
		for i := 0; i < cs.N; i++ {
			p, ok := gen.Tactic(r, i)
			if !ok {
				continue
			}
			pos, err := adapt.Position(p)
			if err != nil {
				c.Violate("newposition", "NewPosition failed for %s: %v", p.FEN(), err)
				continue
			}
			walkTree(c, p, pos, 1+i%2, succ)
			if i < 2 && cs.Idx%8 == 0 {
				c.Sample(map[string]any{"kind": "tactic", "root": p.FEN()})
			}
		}
	}
}

// walkBoardPlayout plays a game on a Board and compares, at every ply, what PushMove accepts with the rules.
func walkBoardPlayout(c *fw.Ctx, r *rand.Rand, start ref.Pos, plies int, bias gen.Bias) {
	b, err := adapt.Board(zt0, start)
	if err != nil {
		c.Violate("newposition", "NewBoard failed for %s: %v", start.FEN(), err)
		return
	}
	g := ref.NewGame(start)
	var own [2]*ref.Move
	for i := 0; i <= plies; i++ {
		legal := g.Cur.LegalMoves()
		want := map[adapt.MoveTuple]bool{}
		for _, m := range legal {
			want[adapt.TupleOfR(m)] = true
		}
		c.Eval(1)
		c.Count("board_plies", 1)
		c.Distinct("board:" + g.Cur.Key() + fmt.Sprint(len(g.Moves)))
		if len(g.Moves) > 0 && g.Moves[len(g.Moves)-1].Kind == ref.KEnPassant {
			c.Count("board_plies_after_ep", 1)
			if g.Cur.InCheck(g.Cur.White) {
				c.Count("board_plies_in_check_after_ep", 1)
			}
		}
		got := map[adapt.MoveTuple]bool{}
		for _, bm := range b.Position().PseudoLegalMoves(b.Turn()) {
			if b.PushMove(bm) {
				got[adapt.TupleOfB(bm)] = true
				b.PopMove()
			}
		}
		if len(legal) == 0 {
			// (a board adjudicates a move-less position when searched; here nothing was pushed)
		}
		for t := range got {
			if !want[t] {
				h := gen.Hist{Start: start, Moves: g.Moves}
				c.Violate("movegen:board-extra", "Board.PushMove accepts %v, which is not legal in %q (game: start %q moves %v)", t, g.Cur.FEN(), start.FEN(), h.MoveStrs())
				return
			}
		}
		for t := range want {
			if !got[t] {
				h := gen.Hist{Start: start, Moves: g.Moves}
				c.Violate("movegen:board-missing", "Board.PushMove refuses the legal move %v in %q (game: start %q moves %v)", t, g.Cur.FEN(), start.FEN(), h.MoveStrs())
				return
			}
		}
		if len(legal) == 0 {
			return
		}
		m := gen.Pick(r, &g.Cur, legal, bias, own[i%2])
		mm := m
		own[i%2] = &mm
		if !adapt.Push(b, m) {
			return // reported above as missing
		}
		g.Push(m)
	}
}

func walkPlayout(c *fw.Ctx, r *rand.Rand, start ref.Pos, plies int, bias gen.Bias, succ bool) {
	p := start
	pos, err := adapt.Position(p)
	if err != nil {
		c.Violate("newposition", "NewPosition failed for %s: %v", p.FEN(), err)
		return
	}
	var own [2]*ref.Move
	for i := 0; i < plies; i++ {
		ms := checkNode(c, p, pos, succ)
		if len(ms) == 0 {
			return
		}
		var prev *ref.Move
		if own[i%2] != nil {
			prev = own[i%2]
		}
		m := gen.Pick(r, &p, ms, bias, prev)
		mm := m
		own[i%2] = &mm
		bm, ok := adapt.FindB(pos, adapt.BColor(p.White), m)
		if !ok {
			return // already reported by checkNode
		}
		next, ok := pos.Move(bm)
		if !ok {
			return
		}
		p = p.Apply(m)
		pos = next
	}
	checkNode(c, p, pos, succ)
}

// perftSUT counts leaf nodes with the system under test's own move generator.
func perftSUT(pos *board.Position, turn board.Color, d int) uint64 {
	if d == 0 {
		return 1
	}
	var n uint64
	for _, m := range pos.PseudoLegalMoves(turn) {
		if next, ok := pos.Move(m); ok {
			n += perftSUT(next, turn.Opponent(), d-1)
		}
	}
	return n
}

// walkTree walks the full legal tree below (p,pos) to the given depth in lock-step.
func walkTree(c *fw.Ctx, p ref.Pos, pos *board.Position, depth int, succ bool) {
	ms := checkNode(c, p, pos, succ)
	if depth == 0 {
		return
	}
	turn := adapt.BColor(p.White)
	for _, m := range ms {
		bm, ok := adapt.FindB(pos, turn, m)
		if !ok {
			continue // reported
		}
		next, ok := pos.Move(bm)
		if !ok {
			continue // reported
		}
		np := p.Apply(m)
		walkTree(c, np, next, depth-1, succ)
	}
}

// checkNode compares the node with the oracle and returns the oracle's legal moves.
func checkNode(c *fw.Ctx, p ref.Pos, pos *board.Position, succ bool) []ref.Move {
	legal := p.LegalMoves()
	turn := adapt.BColor(p.White)
	if succ {
		checkEdges(c, p, pos, legal)
		return legal
	}
	c.Eval(1)
	c.Count("positions", 1)
	c.Distinct(p.Key())
	fenS := ""
	lazyFen := func() string {
		if fenS == "" {
			fenS = p.FEN()
		}
		return fenS
	}

	// category counters (coverage evidence)
	inCheck := p.InCheck(p.White)
	if inCheck {
		c.Count("in_check", 1)
		if k := p.KingSq(p.White); k >= 0 && len(p.Attackers(k, !p.White)) >= 2 {
			c.Count("double_check", 1)
		}
	}
	if len(p.Pins(p.White, ref.King)) > 0 {
		c.Count("pinned_piece_positions", 1)
	}
	if len(legal) == 0 {
		if inCheck {
			c.Count("checkmate", 1)
		} else {
			c.Count("stalemate", 1)
		}
	}

	// the moves the system under test treats as legal
	pseudo := pos.PseudoLegalMoves(turn)
	var got []adapt.MoveTuple
	byTuple := map[adapt.MoveTuple]board.Move{}
	for _, bm := range pseudo {
		if _, ok := pos.Move(bm); ok {
			t := adapt.TupleOfB(bm)
			if _, dup := byTuple[t]; dup {
				c.Violate("movegen:duplicate", "move %v listed twice in %s", t, lazyFen())
			}
			byTuple[t] = bm
			got = append(got, t)
		}
	}
	var want []adapt.MoveTuple
	for _, m := range legal {
		want = append(want, adapt.TupleOfR(m))
	}
	adapt.SortTuples(got)
	adapt.SortTuples(want)
	if adapt.TuplesStr(got) != adapt.TuplesStr(want) {
		missing, extra := diffTuples(want, got)
		key := "movegen:set"
		if len(missing) > 0 {
			key = "movegen:missing"
		} else if len(extra) > 0 {
			key = "movegen:extra"
		}
		c.Violate(key, "legal moves differ in %s: missing [%s] extra [%s]", lazyFen(), adapt.TuplesStr(missing), adapt.TuplesStr(extra))
	}
	// LegalMoves convenience function must be the same filtered list
	lm := pos.LegalMoves(turn)
	if len(lm) != len(got) {
		c.Violate("movegen:LegalMoves", "LegalMoves returns %d moves, filtered pseudo-legal list has %d in %s", len(lm), len(got), lazyFen())
	} else {
		var lt []adapt.MoveTuple
		for _, bm := range lm {
			lt = append(lt, adapt.TupleOfB(bm))
		}
		adapt.SortTuples(lt)
		if adapt.TuplesStr(lt) != adapt.TuplesStr(got) {
			c.Violate("movegen:LegalMoves", "LegalMoves differs from filtered pseudo-legal list in %s", lazyFen())
		}
	}
	// metadata
	for _, m := range legal {
		bm, ok := byTuple[adapt.TupleOfR(m)]
		if !ok {
			continue
		}
		wantCap := adapt.BPiece(m.Capture)
		if m.Kind == ref.KEnPassant {
			wantCap = board.NoPiece // documented: not set for e.p.
		}
		if bm.Type != adapt.BKind(m.Kind) || bm.Piece != adapt.BPiece(m.Piece) || bm.Capture != wantCap {
			c.Violate("movegen:metadata", "move %v in %s described as type=%v piece=%v capture=%v, rules say type=%v piece=%v capture=%v",
				m, lazyFen(), bm.Type, bm.Piece, bm.Capture, adapt.BKind(m.Kind), adapt.BPiece(m.Piece), wantCap)
		}
		switch m.Kind {
		case ref.KEnPassant:
			c.Count("ep_legal", 1)
		case ref.KCastleK, ref.KCastleQ:
			c.Count("castle_legal", 1)
		case ref.KPromotion:
			c.Count("promotions", 1)
		case ref.KCapturePromotion:
			c.Count("capture_promotions", 1)
		}
	}
	// coverage: pseudo-legal e.p. / castling refused
	for _, bm := range pseudo {
		if _, ok := byTuple[adapt.TupleOfB(bm)]; ok {
			continue
		}
		switch bm.Type {
		case board.EnPassant:
			c.Count("ep_illegal_by_check", 1)
		case board.KingSideCastle, board.QueenSideCastle:
			c.Count("castle_blocked_by_attack", 1)
		}
	}
	return legal
}

func diffTuples(want, got []adapt.MoveTuple) (missing, extra []adapt.MoveTuple) {
	w := map[adapt.MoveTuple]int{}
	for _, t := range want {
		w[t]++
	}
	for _, t := range got {
		if w[t] > 0 {
			w[t]--
		} else {
			extra = append(extra, t)
		}
	}
	for t, n := range w {
		for ; n > 0; n-- {
			missing = append(missing, t)
		}
	}
	adapt.SortTuples(missing)
	return
}

// checkEdges: C02. For every legal move, compare the successor with the oracle's and check view consistency.
func checkEdges(c *fw.Ctx, p ref.Pos, pos *board.Position, legal []ref.Move) {
	turn := adapt.BColor(p.White)
	before := *pos
	key := p.Key()
	pseudo := pos.PseudoLegalMoves(turn)
	legalSet := map[adapt.MoveTuple]ref.Move{}
	for _, m := range legal {
		legalSet[adapt.TupleOfR(m)] = m
	}
	for _, bm := range pseudo {
		t := adapt.TupleOfB(bm)
		m, isLegal := legalSet[t]
		next, ok := pos.Move(bm)
		if *pos != before {
			c.Violate("succ:source-mutated", "Move(%v) changed the position it was played from: %s", t, p.FEN())
			*pos = before
		}
		if !isLegal {
			c.Count("illegal_attempts", 1)
			if ok {
				// C01 reports acceptance of illegal moves; nothing to compare here
			}
			continue
		}
		if !ok {
			continue // C01 reports refusals of legal moves
		}
		c.Eval(1)
		c.Count("edges", 1)
		c.Distinct(key + "|" + t.String())
		np := p.Apply(m)
		countEdge(c, p, m, np)
		compareSuccessor(c, p, m, np, next)
	}
}

func countEdge(c *fw.Ctx, p ref.Pos, m ref.Move, np ref.Pos) {
	switch m.Kind {
	case ref.KCastleK, ref.KCastleQ:
		c.Count("edge_castle", 1)
	case ref.KEnPassant:
		c.Count("edge_ep", 1)
	case ref.KPromotion, ref.KCapturePromotion:
		c.Count("edge_promotion", 1)
	case ref.KJump:
		c.Count("edge_jump", 1)
	}
	if np.Cast != p.Cast {
		c.Count("rights_lost_transitions", 1)
	}
	if m.Capture == ref.Rook && m.Kind != ref.KEnPassant {
		var flag uint8
		switch m.To {
		case ref.Sq(0, 0):
			flag = ref.CastleWQ
		case ref.Sq(7, 0):
			flag = ref.CastleWK
		case ref.Sq(0, 7):
			flag = ref.CastleBQ
		case ref.Sq(7, 7):
			flag = ref.CastleBK
		}
		if flag != 0 && p.Cast&flag != 0 {
			c.Count("edge_rook_captured_on_home_with_right", 1)
		}
	}
}

func compareSuccessor(c *fw.Ctx, p ref.Pos, m ref.Move, np ref.Pos, next *board.Position) {
	desc := func() string { return fmt.Sprintf("%s after %v from %s", np.FEN(), m, p.FEN()) }
	// (1) square lookup on all 64 squares
	var pieces [2][7]board.Bitboard
	var all board.Bitboard
	for sq := 0; sq < 64; sq++ {
		bs := adapt.BSq(sq)
		col, pc, ok := next.Square(bs)
		v := np.B[sq]
		if v == 0 {
			if ok {
				c.Violate("succ:square", "square %v should be empty: %s", bs, desc())
			}
			if !next.IsEmpty(bs) {
				c.Violate("succ:isempty", "IsEmpty(%v) false on empty square: %s", bs, desc())
			}
			continue
		}
		k := int(v)
		if k < 0 {
			k = -k
		}
		wc, wp := adapt.BColor(v > 0), adapt.BPiece(k)
		if !ok || col != wc || pc != wp {
			c.Violate("succ:square", "square %v holds (%v,%v,%v), rules say (%v,%v): %s", bs, col, pc, ok, wc, wp, desc())
		}
		pieces[wc][wp] |= board.BitMask(bs)
		pieces[wc][0] |= board.BitMask(bs)
		all |= board.BitMask(bs)
	}
	// (2) per-piece / per-colour / occupancy sets
	for col := board.ZeroColor; col < board.NumColors; col++ {
		if next.Color(col) != pieces[col][0] {
			c.Violate("succ:colorset", "Color(%v)=%016x want %016x: %s", col, uint64(next.Color(col)), uint64(pieces[col][0]), desc())
		}
		for pc := board.ZeroPiece; pc < board.NumPieces; pc++ {
			if next.Piece(col, pc) != pieces[col][pc] {
				c.Violate("succ:pieceset", "Piece(%v,%v)=%016x want %016x: %s", col, pc, uint64(next.Piece(col, pc)), uint64(pieces[col][pc]), desc())
			}
		}
	}
	if next.All() != all {
		c.Violate("succ:all", "All()=%016x want %016x: %s", uint64(next.All()), uint64(all), desc())
	}
	if next.Rotated() != board.NewRotatedBitboard(all) {
		c.Violate("succ:rotated", "rotated occupancy differs from from-scratch rotation: %s", desc())
	}
	// (3) rights and e.p.
	if got := adapt.RCastling(next.Castling()); got != np.Cast {
		c.Violate("succ:castling", "castling rights %v, rules say %s: %s", next.Castling(), np.CastStr(), desc())
	}
	ep, hasEP := next.EnPassant()
	if np.EP < 0 {
		if hasEP {
			c.Violate("succ:ep", "e.p. target %v set although the move was not a double step: %s", ep, desc())
		}
	} else if !hasEP || adapt.RSq(ep) != np.EP {
		c.Violate("succ:ep", "e.p. target (%v,%v), rules say %s: %s", ep, hasEP, ref.SqName(np.EP), desc())
	}
	// (4) attack queries (every 8th edge all 64 squares, otherwise king squares)
	full := (c.Cur.Seed+int64(m.From)*64+int64(m.To))%8 == 0
	for sq := 0; sq < 64; sq++ {
		if !full && np.B[sq] != ref.King && np.B[sq] != -ref.King {
			continue
		}
		for _, white := range []bool{true, false} {
			if got, want := next.IsAttacked(adapt.BColor(white), adapt.BSq(sq)), np.Attacked(sq, !white); got != want {
				c.Violate("succ:attack", "IsAttacked(%v,%v)=%v want %v: %s", adapt.BColor(white), adapt.BSq(sq), got, want, desc())
			}
		}
	}
	// (5) FEN of the successor
	if got, want := fen.Encode(next, adapt.BColor(np.White), np.Half, np.Full), np.FEN(); got != want {
		c.Violate("succ:fen", "FEN %q, rules say %q (after %v from %s)", got, want, m, p.FEN())
	}
	// (6) the successor equals the same position built from scratch (no hidden state)
	if scratch, err := adapt.Position(np); err == nil && *scratch != *next {
		c.Violate("succ:scratch", "successor differs from the same position built from scratch: %s", desc())
	}
}
