package mon

import (
	"context"
	"fmt"
	"math/rand"

	"github.com/herohde/morlock/cmd/sargon/sargon"
	"github.com/herohde/morlock/pkg/board"
	"github.com/herohde/morlock/pkg/eval"
	"github.com/herohde/morlock/pkg/search"

	"verif/adapt"
	"verif/fw"
	"verif/gen"
	"verif/ref"
	"verif/refsearch"
)

// C03 — full-window alpha-beta equals exhaustive minimax; sound PV; board handed back.
// C13 — a narrowed window only clips the true value; quiescence stand-pat and terminal exactness.

var fullWindow = func() *search.Context {
	return &search.Context{Alpha: eval.NegInfScore, Beta: eval.InfScore, TT: search.NoTranspositionTable{}}
}

func histDesc(h gen.Hist) string {
	return fmt.Sprintf("start %q moves %v", h.Start.FEN(), h.MoveStrs())
}

// terminalRoot searches for a mate or stalemate position (side to move has no legal move).
func terminalRoot(r *rand.Rand, wantMate bool) (gen.Hist, bool) {
	for try := 0; try < 4000; try++ {
		var p ref.Pos
		if try%2 == 0 {
			p = gen.TacticOK(r, 8)
		} else {
			p = smallMaterial(r)
		}
		if len(p.LegalMoves()) == 0 && p.InCheck(p.White) == wantMate {
			return gen.Hist{Start: p}, true
		}
		// one ply deeper: positions after a move often are terminal in these shapes
		for _, m := range p.LegalMoves() {
			q := p.Apply(m)
			if len(q.LegalMoves()) == 0 && q.InCheck(q.White) == wantMate {
				return gen.Hist{Start: p, Moves: []ref.Move{m}}, true
			}
		}
	}
	return gen.Hist{}, false
}

// handBack compares the board before and after a search. At a move-less root the lazy adjudication
// (Checkmate/Stalemate) of the same game state is accepted.
func handBack(c *fw.Ctx, key string, before adapt.Snap, b *board.Board, moveless bool, what string) {
	after := adapt.TakeSnap(b)
	d := after.Diff(before)
	if d == "" {
		return
	}
	if moveless && after.DiffNoResult(before) == "" && (after.Reason == board.Checkmate || after.Reason == board.Stalemate) {
		return
	}
	c.Violate(key, "board not handed back as received (%s): %s", d, what)
}

func searchCase(c *fw.Ctx, r *rand.Rand, i int, budget float64, maxDepth int) (root searchRoot, cfg searchCfg, depth int, ok bool) {
	root = searchCorpus(r, i)
	switch i % 23 {
	case 11:
		if h, found := terminalRoot(r, true); found {
			root = searchRoot{h, "mate-root"}
		}
	case 17:
		if h, found := terminalRoot(r, false); found {
			root = searchRoot{h, "stalemate-root"}
		}
	}
	crowded := false
	if i%23 == 5 {
		if p, found := gen.Crowded(r); found {
			root, crowded = searchRoot{gen.Hist{Start: p}, "crowded"}, true
		}
	}
	cfg = searchCfgs[r.Intn(len(searchCfgs))]
	if crowded {
		// more than 128 moves at the root: static leaves, depth 1 or 2
		cfg = searchCfgs[r.Intn(2)]
		c.Count("crowded_roots", 1)
		return root, cfg, 1 + r.Intn(2), true
	}
	if root.tag == "stalemate-resource" {
		cfg = searchCfgs[[]int{2, 3, 4, 0}[r.Intn(4)]] // quiescence leaves mostly: the stalemate is met at or below the horizon
	}
	if (root.tag == "clock95+" || root.tag == "shuffled" || root.tag == "sparse-shuffled") && r.Intn(2) == 0 {
		// draws by the clock or by repetition that arise below the horizon: the quiescence searches whose
		// explorations include quiet moves (TUROCHAMP's considerable moves) must count them as zero too
		cfg = searchCfgs[[]int{4, 4, 2, 3}[r.Intn(4)]]
		c.Count("quiet_leaf_on_drawish_root", 1)
	}
	if root.tag == "matingnet" {
		// forced mates of several lengths: full exploration, more depth
		cfg = searchCfgs[[]int{0, 1, 2, 9}[r.Intn(4)]]
		budget *= 3
	}
	b, good := boardOf(root.h)
	if !good {
		return root, cfg, 0, false
	}
	if !quietTame(root.h, cfg) {
		cfg = searchCfgs[r.Intn(2)] // static leaves instead
	}
	n0, n1 := branching(b, cfg.limit)
	bud := budget
	if cfg.quiet {
		bud /= 8
	}
	depth = depthFor(n0, n1, bud, maxDepth)
	if root.tag == "stalemate-resource" && r.Intn(4) != 0 {
		depth = 1 + r.Intn(3) // the stalemate must be met at the horizon, where quiescence has to recognise it
	}
	if i%19 == 7 {
		depth = 0 // the root itself is the horizon
	}
	if root.tag == "clock99-quiet-mate" {
		// searched at depth 0 and 1 with leaves that look below the horizon, and at depth 1 with static leaves
		cfg = searchCfgs[[]int{4, 4, 2, 0}[r.Intn(4)]]
		depth = r.Intn(2)
		if !cfg.quiet {
			depth = 1
		}
		c.Count("clock99_quiet_mate_roots", 1)
	}
	if root.tag == "clock95+" && cfg.quiet {
		// the hundredth ply falls on the first or second move below the horizon
		fp := root.h.Final()
		if d := 99 - fp.Half - r.Intn(2); d >= 0 && d <= 3 {
			depth = d
			c.Count("clock100_below_horizon", 1)
		}
	}
	return root, cfg, depth, true
}

// moveListCase: the move-ordering queue the searches iterate over must hand out every move exactly once,
// in non-increasing priority, with the preferred move first (a move lost or duplicated by the queue
// changes the explored set, hence the minimax value).
func moveListCase(c *fw.Ctx, r *rand.Rand) {
	p := randomHist(r, 60).Final()
	if r.Intn(6) == 0 {
		if q, found := gen.Crowded(r); found {
			p = q
			c.Count("movelists_over_128_moves", 1)
		}
	}
	pos, err := adapt.Position(p)
	if err != nil {
		return
	}
	moves := pos.PseudoLegalMoves(adapt.BColor(p.White))
	if len(moves) == 0 {
		return
	}
	prios := map[board.Move]board.MovePriority{}
	for _, m := range moves {
		switch r.Intn(4) {
		case 0:
			prios[m] = 0 // many ties
		case 1:
			prios[m] = board.MovePriority(r.Intn(3))
		default:
			prios[m] = board.MovePriority(r.Intn(2000) - 1000)
		}
	}
	fn := func(m board.Move) board.MovePriority { return prios[m] }
	var first board.Move
	useFirst := r.Intn(2) == 0
	if useFirst {
		first = moves[r.Intn(len(moves))]
		first = board.Move{From: first.From, To: first.To, Promotion: first.Promotion} // as read back from the table: coordinates only
		fn = board.First(first, fn)
	}
	in := append([]board.Move(nil), moves...)
	ml := board.NewMoveList(in, fn)
	c.Eval(1)
	c.Count("movelists", 1)
	if ml.Size() != len(moves) {
		c.Violate("movelist:size", "MoveList of %d moves reports size %d", len(moves), ml.Size())
	}
	seen := map[board.Move]int{}
	var last board.MovePriority
	for i := 0; ; i++ {
		m, ok := ml.Next()
		if !ok {
			break
		}
		seen[m]++
		pr := fn(m)
		if i > 0 && pr > last {
			c.Violate("movelist:order", "MoveList hands out priority %d after %d in %q", pr, last, p.FEN())
		}
		if i == 0 && useFirst && !first.Equals(m) {
			c.Violate("movelist:first", "preferred move %v is not handed out first (got %v) in %q", first, m, p.FEN())
		}
		last = pr
		if i > len(moves)+2 {
			c.Violate("movelist:endless", "MoveList hands out more moves than it was given in %q", p.FEN())
			break
		}
	}
	for _, m := range moves {
		if seen[m] != 1 {
			c.Violate("movelist:multiset", "move %v handed out %d times (of %d moves) in %q", m, seen[m], len(moves), p.FEN())
			break
		}
	}
	if _, ok := ml.Next(); ok {
		c.Violate("movelist:exhausted", "exhausted MoveList still hands out moves")
	}
	// the stable sort used by the plausible-move table: a permutation, stable within equal priorities
	sorted := append([]board.Move(nil), moves...)
	board.SortByPriority(sorted, func(m board.Move) board.MovePriority { return prios[m] })
	idx := map[board.Move]int{}
	for i, m := range moves {
		idx[m] = i
	}
	cnt := map[board.Move]int{}
	for i, m := range sorted {
		cnt[m]++
		if i > 0 {
			a, b := sorted[i-1], m
			if prios[a] < prios[b] || (prios[a] == prios[b] && idx[a] > idx[b]) {
				c.Violate("movelist:sort", "SortByPriority is not a stable descending sort in %q", p.FEN())
				break
			}
		}
	}
	if len(cnt) != len(moves) {
		c.Violate("movelist:sort", "SortByPriority lost or duplicated moves in %q", p.FEN())
	}
}

// shuttle finds, from p, a pair of quiet moves (one per side) that can be undone: m1, m2, back1, back2 return to p.
func shuttle(r *rand.Rand, p ref.Pos) ([]ref.Move, bool) {
	g := ref.NewGame(p)
	quiet := func() (ref.Move, bool) {
		ms := g.Cur.LegalMoves()
		for _, i := range r.Perm(len(ms)) {
			if m := ms[i]; m.Capture == 0 && m.Piece != ref.Pawn && m.Kind == ref.KNormal {
				return m, true
			}
		}
		return ref.Move{}, false
	}
	reverse := func(m ref.Move) (ref.Move, bool) {
		for _, x := range g.Cur.LegalMoves() {
			if x.From == m.To && x.To == m.From && x.Capture == 0 {
				return x, true
			}
		}
		return ref.Move{}, false
	}
	m1, ok := quiet()
	if !ok {
		return nil, false
	}
	g.Push(m1)
	m2, ok := quiet()
	if !ok {
		return nil, false
	}
	g.Push(m2)
	b1, ok := reverse(m1)
	if !ok {
		return nil, false
	}
	g.Push(b1)
	b2, ok := reverse(m2)
	if !ok {
		return nil, false
	}
	g.Push(b2)
	if g.Cur.Key() != p.Key() {
		return nil, false
	}
	return []ref.Move{m1, m2, b1, b2}, true
}

// drawnArrival: a node that is a draw on arrival (third occurrence, given the game's history) counts as zero
// whatever a table holds for that position. The table is given one truthful entry: the exact value the position
// has as a fresh root at exactly the remaining depth, as an earlier search of the same game would have left it.
func drawnArrival(c *fw.Ctx, r *rand.Rand, idx int) {
	ctx := context.Background()
	var x ref.Pos
	if idx%2 == 0 {
		x = smallMaterial(r)
	} else {
		x = gen.TacticOK(r, 8+r.Intn(2))
	}
	x.Half = r.Intn(20)
	cyc, ok := shuttle(r, x)
	if !ok {
		return
	}
	// X, cycle (X again), then three moves of the cycle: the side to move can now bring X about a third time
	moves := append(append([]ref.Move{}, cyc...), cyc[:3]...)
	h := gen.Hist{Start: x, Moves: moves}
	cfgs := []searchCfg{searchCfgs[0], searchCfgs[1], searchCfgs[9]}
	cfg := cfgs[r.Intn(len(cfgs))]
	depth := 2 + r.Intn(2)
	s, rcfg, anchor := cfg.mk()
	what := fmt.Sprintf("config %s depth %d %s: the position after %v has occurred twice", cfg.name, depth, histDesc(h), cyc[3])
	// the truthful entry for X at the remaining depth it has below the root
	xb, ok := boardOf(gen.Hist{Start: x})
	if !ok {
		return
	}
	xv, _, _, err := abValue(s, xb, depth-1)
	if err != nil {
		return
	}
	if xv.Type == eval.Heuristic && xv.Pawns == 0 {
		c.Count("drawn_arrival_value_zero_anyway", 1)
	}
	tt := search.NewTranspositionTable(ctx, 1<<16)
	tt.Write(xb.Hash(), search.ExactBound, xb.Ply(), depth-1, xv, board.Move{})
	// reference value with the game's history, no table
	rb, _ := boardOf(h)
	anchor(rb)
	rs := &refsearch.Searcher{Cfg: rcfg, Budget: 200000}
	v := rs.Value(rb, depth)
	if rs.Over {
		c.Inconclusive("reference search over budget: %s", what)
		return
	}
	b, _ := boardOf(h)
	sctx := fullWindow()
	sctx.TT = tt
	_, score, _, err := s.Search(budgetCtx(), sctx, b, depth)
	if err != nil {
		return
	}
	c.Eval(1)
	c.Count("drawn_arrival_searches", 1)
	c.Distinct(what)
	got, okScore := refsearch.FromEval(score)
	if !okScore || !got.Eq(v) {
		c.Violate("search:drawn-arrival", "search returns %v, the value with the repetition counted as zero is %v (the table held the exact entry %v for the repeated position at depth %d): %s", score, v, xv, depth-1, what)
	}
}

func runC03(c *fw.Ctx, cs fw.Case) {
	r := cs.Rand()
	if cs.Kind == "drawnarrival" {
		for i := 0; i < cs.N; i++ {
			drawnArrival(c, r, i)
		}
		return
	}
	if cs.Kind == "movelist" {
		for i := 0; i < cs.N; i++ {
			moveListCase(c, r)
		}
		return
	}
	budget := 10000.0
	if !c.Quick() {
		budget = 60000
	}
	for i := 0; i < cs.N; i++ {
		root, cfg, depth, ok := searchCase(c, r, i+cs.Idx, budget, 7)
		if !ok {
			continue
		}
		what := fmt.Sprintf("config %s depth %d %s (%s)", cfg.name, depth, histDesc(root.h), root.tag)
		s, rcfg, anchor := cfg.mk()
		b, _ := boardOf(root.h)
		rb, _ := boardOf(root.h)

		// reference first (its own board)
		anchor(rb)
		rs := &refsearch.Searcher{Cfg: rcfg, Budget: uint64(budget * 6)}
		v := rs.Value(rb, depth)
		if rs.Over {
			c.Inconclusive("reference search over budget: %s", what)
			continue
		}
		moveless := legalCount(b) == 0
		before := adapt.TakeSnap(b)
		_, score, pv, err := s.Search(budgetCtx(), fullWindow(), b, depth)
		if err == search.ErrHalted {
			c.Inconclusive("search exceeded the poll budget: %s", what)
			continue
		}
		c.Eval(1)
		c.Count("searches", 1)
		c.Count("cfg_"+cfg.name, 1)
		c.Count("root_"+root.tag, 1)
		c.Distinct(what)
		if err != nil {
			c.Violate("search:error", "search failed: %v: %s", err, what)
			continue
		}
		handBack(c, "search:handback", before, b, moveless, what)
		got, okScore := refsearch.FromEval(score)
		if !okScore {
			c.Violate("search:invalid-score", "search returned an invalid score: %s", what)
			continue
		}
		if !got.Eq(v) {
			key := "search:value"
			if v.Kind != refsearch.Heur || got.Kind != refsearch.Heur {
				key = "search:value-mate"
			}
			c.Violate(key, "alpha-beta returns %v, exhaustive minimax over the same moves and leaves gives %v: %s", score, v, what)
		}
		// the repository's own Minimax (its validation reference) must agree with the independent one
		// where it is defined: full exploration, static leaves
		if rcfg.Explore == nil && rcfg.QuietExplore == nil && !rcfg.OnePlyIfChecked && depth <= 3 {
			mb, _ := boardOf(root.h)
			mbefore := adapt.TakeSnap(mb)
			_, ms, mpv, merr := search.Minimax{Eval: search.Leaf{Eval: rcfg.Static}}.Search(budgetCtx(), fullWindow(), mb, depth)
			if merr == nil {
				c.Count("minimax_compared", 1)
				if mg, ok := refsearch.FromEval(ms); !ok || !(mg.Eq(v) || before.Outcome == board.Draw) {
					c.Violate("search:minimax-value", "Minimax returns %v, the independent minimax gives %v: %s", ms, v, what)
				}
				if len(mpv) > depth {
					c.Violate("search:minimax-pv", "Minimax PV has %d moves at depth %d: %s", len(mpv), depth, what)
				}
				handBack(c, "search:minimax-handback", mbefore, mb, moveless, what)
			}
		}
		// coverage
		switch {
		case v.Kind == refsearch.Win && v.Dist >= 3:
			c.Count("root_mate_for_ge3", 1)
		case v.Kind == refsearch.Loss && v.Dist >= 2:
			c.Count("root_mate_against_ge2", 1)
		}
		if v.Kind != refsearch.Heur {
			c.Count("root_mate_values", 1)
		}
		if rs.DrawHits > 0 {
			c.Count("draw_inside_tree", 1)
		}
		if rs.Stalemates > 0 {
			c.Count("stalemate_inside_tree", 1)
		}
		if rs.Pruned > 0 {
			c.Count("selective_pruned", 1)
		}
		if before.Outcome == board.Draw {
			c.Count("drawn_root", 1)
		}
		if moveless {
			c.Count("moveless_root", 1)
		}
		c.Count("depth_"+fmt.Sprint(depth), 1)

		// principal variation
		if len(pv) > depth {
			c.Violate("search:pv-length", "PV has %d moves at depth %d: %s", len(pv), depth, what)
		}
		if len(pv) == 0 {
			if !moveless && depth > 0 { // (a depth-0 search evaluates the root and has no move to report)
				c.Violate("search:pv-empty", "empty PV although the root has a legal move: %s", what)
			}
			continue
		}
		p := root.h.Final()
		legalLine := true
		var first ref.Move
		for k, mv := range pv {
			t := adapt.TupleOfB(mv)
			m, found := p.FindMove(t.From, t.To, t.Promo)
			if !found {
				c.Violate("search:pv-illegal", "PV move %d (%v) is not legal in %q: %s", k+1, t, p.FEN(), what)
				legalLine = false
				break
			}
			if k == 0 {
				first = m
			}
			p = p.Apply(m)
		}
		if !legalLine {
			continue
		}
		if !adapt.Push(rb, first) {
			continue
		}
		rs2 := &refsearch.Searcher{Cfg: rcfg, Budget: uint64(budget * 6)}
		cv := rs2.ChildValue(rb, depth-1).Up()
		rb.PopMove()
		if !rs2.Over && !cv.Eq(v) {
			c.Violate("search:pv-first", "first PV move %v is worth %v, the root value is %v: %s", first, cv, v, what)
		}
		if i == 0 && cs.Idx%16 == 0 {
			c.Sample(map[string]any{"config": cfg.name, "depth": depth, "start": root.h.Start.FEN(), "moves": root.h.MoveStrs(), "value": v.String(), "pv": board.PrintMoves(pv)})
		}
	}
}

// ---- C13 ----

func windowsAround(r *rand.Rand, v refsearch.Score, step float32) [][2]refsearch.Score {
	h := func(x float32) refsearch.Score { return refsearch.Score{Kind: refsearch.Heur, H: x} }
	win := func(d int) refsearch.Score { return refsearch.Score{Kind: refsearch.Win, Dist: d} }
	loss := func(d int) refsearch.Score { return refsearch.Score{Kind: refsearch.Loss, Dist: d} }
	var pool []refsearch.Score
	if v.Kind == refsearch.Heur {
		pool = append(pool, h(v.H-step), h(v.H), h(v.H+step), h(v.H-50*step), h(v.H+50*step))
	} else {
		pool = append(pool, v)
		if v.Dist > 0 {
			pool = append(pool, refsearch.Score{Kind: v.Kind, Dist: v.Dist - 1})
		}
		pool = append(pool, refsearch.Score{Kind: v.Kind, Dist: v.Dist + 1}, refsearch.Score{Kind: v.Kind, Dist: v.Dist + 2})
	}
	pool = append(pool, h(0), h(-1000), h(1000), win(0), loss(0))
	for i := 0; i < 3; i++ {
		pool = append(pool, win(1+r.Intn(9)), loss(1+r.Intn(9)), h(float32(r.Intn(41)-20)/2))
	}
	var ws [][2]refsearch.Score
	for tries := 0; tries < 200 && len(ws) < 14; tries++ {
		a, b := pool[r.Intn(len(pool))], pool[r.Intn(len(pool))]
		if a.Less(b) {
			ws = append(ws, [2]refsearch.Score{a, b})
		}
	}
	return ws
}

// clipOK checks the window contract in the reference order.
func clipOK(v, a, b, r refsearch.Score) bool {
	switch {
	case a.Less(v) && v.Less(b):
		return r.Eq(v)
	case !a.Less(v): // v <= a
		return !r.Less(v) && !a.Less(r)
	default: // v >= b
		return !r.Less(b) && !v.Less(r)
	}
}

func runC13(c *fw.Ctx, cs fw.Case) {
	r := cs.Rand()
	ctx := context.Background()
	budget := 4000.0
	if !c.Quick() {
		budget = 40000
	}
	if cs.Kind == "mindepth" {
		// depth-3 searches of game positions with the history-dependent SARGON evaluation (with and without
		// its check extension) on the engine's min-depth-1 table: equal to the table-less search, window by
		// window (see the comment at the per-root variant below for why nothing may change)
		starts := gen.Starts()
		for i := 0; i < cs.N; i++ {
			h := gen.Playout(r, starts[r.Intn(len(starts))], r.Intn(40), gen.Biases[r.Intn(len(gen.Biases))])
			rb, ok := boardOf(h)
			if !ok {
				continue
			}
			n0, n1 := branching(rb, 0)
			if n0 == 0 || float64(n0*n1*n0) > 60000 {
				continue
			}
			points := &sargon.Points{}
			var inner search.Search = search.AlphaBeta{Explore: sargon.SkipUnderPromotions, Eval: search.Leaf{Eval: points}}
			name := "sargon points, plain leaf"
			if i%2 == 0 {
				inner = search.AlphaBeta{Explore: sargon.SkipUnderPromotions, Eval: sargon.OnePlyIfChecked{Leaf: search.Leaf{Eval: points}}}
				name = "sargon"
			}
			s := sargon.Hook{Eval: inner, Hook: points}
			what := fmt.Sprintf("config %s depth 3 %s", name, histDesc(h))
			b0, _ := boardOf(h)
			_, want, _, err := s.Search(budgetCtx(), fullWindow(), b0, 3)
			if err != nil {
				continue
			}
			wv, okW := refsearch.FromEval(want)
			if !okW {
				continue
			}
			ws := windowsAround(r, wv, 0.125)[:2]
			ws = append([][2]refsearch.Score{{{Kind: refsearch.Loss}, {Kind: refsearch.Win}}}, ws...)
			for _, w := range ws {
				b, _ := boardOf(h)
				tt := search.NewMinDepthTranspositionTable(1)(ctx, 1<<20)
				_, score, _, err := s.Search(budgetCtx(), &search.Context{Alpha: w[0].ToEval(), Beta: w[1].ToEval(), TT: tt}, b, 3)
				if err != nil {
					break
				}
				c.Eval(1)
				c.Count("min_depth_table_depth3_searches", 1)
				got, okScore := refsearch.FromEval(score)
				if !okScore || !clipOK(wv, w[0], w[1], got) {
					c.Violate("window:clip-min-depth-table", "window (%v, %v) on a fresh min-depth-1 table: search returns %v, the table-less value is %v: %s", w[0], w[1], score, want, what)
					break
				}
			}
			c.Distinct(what)
		}
		return
	}
	for i := 0; i < cs.N; i++ {
		root, cfg, depth, ok := searchCase(c, r, i+cs.Idx, budget, 6)
		if !ok {
			continue
		}
		what := fmt.Sprintf("config %s depth %d %s (%s)", cfg.name, depth, histDesc(root.h), root.tag)
		s, rcfg, anchor := cfg.mk()
		rb, _ := boardOf(root.h)
		anchor(rb)
		rs := &refsearch.Searcher{Cfg: rcfg, Budget: uint64(budget * 6)}
		v := rs.Value(rb, depth)
		if rs.Over {
			c.Inconclusive("reference search over budget: %s", what)
			continue
		}
		c.Distinct(what)
		moveless := legalCount(rb) == 0
		for _, w := range windowsAround(r, v, 0.125) {
			b, _ := boardOf(root.h)
			before := adapt.TakeSnap(b)
			sctx := &search.Context{Alpha: w[0].ToEval(), Beta: w[1].ToEval(), TT: search.NoTranspositionTable{}}
			_, score, _, err := s.Search(budgetCtx(), sctx, b, depth)
			if err == search.ErrHalted {
				c.Inconclusive("windowed search exceeded the poll budget: %s", what)
				break
			}
			c.Eval(1)
			c.Count("windowed_searches", 1)
			if err != nil {
				c.Violate("window:error", "search failed: %v: %s", err, what)
				break
			}
			handBack(c, "window:handback", before, b, moveless, what)
			got, okScore := refsearch.FromEval(score)
			if !okScore || !clipOK(v, w[0], w[1], got) {
				key := "window:clip"
				if w[0].Kind != refsearch.Heur || w[1].Kind != refsearch.Heur {
					key = "window:clip-mate-bound"
				}
				c.Violate(key, "window (%v, %v): search returns %v, the true value is %v: %s", w[0], w[1], score, v, what)
			}
			switch {
			case w[0].Less(v) && v.Less(w[1]):
				c.Count("win_inside", 1)
			case !w[0].Less(v):
				c.Count("win_fail_low", 1)
			default:
				c.Count("win_fail_high", 1)
			}
			if w[0].Kind != refsearch.Heur || w[1].Kind != refsearch.Heur {
				c.Count("win_mate_bound", 1)
			}
		}

		// the same windows on one shared table (aspiration pattern), then the full window: the contract
		// must survive whatever the narrowed searches left in the table
		if fp := root.h.Final(); cfg.posDetermined && repetitionFree(root.h) && fp.Half+depth < 100 && !moveless && depth == ttSafeDepth(root.h, depth) {
			inner, tname := newTable(context.Background(), r.Intn(7))
			ws := windowsAround(r, v, 0.125)
			ws = append(ws, [2]refsearch.Score{{Kind: refsearch.Loss}, {Kind: refsearch.Win}})
			for _, w := range ws {
				b, _ := boardOf(root.h)
				sctx := &search.Context{Alpha: w[0].ToEval(), Beta: w[1].ToEval(), TT: inner}
				_, score, _, err := s.Search(budgetCtx(), sctx, b, depth)
				if err != nil {
					break
				}
				c.Eval(1)
				c.Count("windowed_searches_shared_table", 1)
				got, okScore := refsearch.FromEval(score)
				if !okScore || !clipOK(v, w[0], w[1], got) {
					c.Violate("window:clip-shared-table", "window (%v, %v) on a table (%s) shared with earlier windowed searches: search returns %v, the true value is %v: %s", w[0], w[1], tname, score, v, what)
					break
				}
			}
		}

		// history-dependent evaluators (TUROCHAMP, SARGON) on the engine's own table type, which does not keep
		// entries below depth 1: up to depth 3 no stored node can be reached a second time within one search
		// (the same position with the same side to move needs four plies), so a fresh table of that type
		// must not change anything; a leaf entry that slips through would be served to a leaf reached by
		// another move order, which these evaluators rate differently
		if !cfg.posDetermined && depth <= 3 && !moveless {
			ws := windowsAround(r, v, 0.125)
			ws = append([][2]refsearch.Score{{{Kind: refsearch.Loss}, {Kind: refsearch.Win}}}, ws...)
			for _, w := range ws {
				b, _ := boardOf(root.h)
				tt := search.NewMinDepthTranspositionTable(1)(context.Background(), 1<<18)
				sctx := &search.Context{Alpha: w[0].ToEval(), Beta: w[1].ToEval(), TT: tt}
				_, score, _, err := s.Search(budgetCtx(), sctx, b, depth)
				if err != nil {
					break
				}
				c.Eval(1)
				c.Count("windowed_searches_min_depth_table", 1)
				got, okScore := refsearch.FromEval(score)
				if !okScore || !clipOK(v, w[0], w[1], got) {
					c.Violate("window:clip-min-depth-table", "window (%v, %v) on a fresh min-depth-1 table: search returns %v, the true value is %v: %s", w[0], w[1], score, v, what)
					break
				}
			}
		}

		// quiescence called directly on the root position
		if rcfg.QuietExplore != nil {
			qs := s.(search.AlphaBeta).Eval
			qb, _ := boardOf(root.h)
			rq := &refsearch.Searcher{Cfg: rcfg, Budget: uint64(budget * 6)}
			qv := rq.Quiet(rb)
			if rq.Over {
				continue
			}
			drawn := qb.Result().Outcome == board.Draw
			static := refsearch.Score{Kind: refsearch.Heur, H: float32(rcfg.Static.Evaluate(ctx, qb))}
			for _, w := range windowsAround(r, qv, 0.125) {
				before := adapt.TakeSnap(qb)
				sctx := &search.Context{Alpha: w[0].ToEval(), Beta: w[1].ToEval(), TT: search.NoTranspositionTable{}}
				bc := budgetCtx()
				_, score := qs.QuietSearch(bc, sctx, qb)
				if bc.cancelled() {
					c.Inconclusive("quiescence exceeded the poll budget: %s", what)
					break
				}
				c.Eval(1)
				c.Count("windowed_quiet", 1)
				got, okScore := refsearch.FromEval(score)
				if !okScore || !clipOK(qv, w[0], w[1], got) {
					c.Violate("window:quiet-clip", "quiescence window (%v, %v) returns %v, the true value is %v: %s", w[0], w[1], score, qv, what)
				}
				if okScore && !drawn {
					if moveless {
						c.Count("quiet_terminal", 1)
						if !got.Eq(qv) {
							c.Violate("window:quiet-terminal", "quiescence rates a mate/stalemate position %v within (%v, %v), exact value %v: %s", score, w[0], w[1], qv, what)
						}
					} else if got.Less(static) {
						c.Violate("window:standpat", "quiescence rates the position %v within (%v, %v), below its static evaluation %v although a legal move exists: %s", score, w[0], w[1], static, what)
					}
				}
				handBack(c, "window:handback", before, qb, moveless, what)
				if moveless {
					qb, _ = boardOf(root.h)
				}
			}
		}
		if i == 0 && cs.Idx%16 == 0 {
			c.Sample(map[string]any{"config": cfg.name, "depth": depth, "start": root.h.Start.FEN(), "moves": root.h.MoveStrs(), "value": v.String()})
		}
	}
}

func init() {
	fw.Register(&fw.Monitor{
		ID:          "C03",
		Level:       "exploration",
		Technique:   "runtime differential oracle: full-window alpha-beta vs an independent windowless negamax with its own score arithmetic, over generated positions, histories and search configurations; PV replayed on the rules oracle; board snapshot before/after",
		Rule:        "one evaluation = one full-window search (configuration drawn from 10 recipes: full / plausible-move / no-under-promotion exploration x static / quiescence / one-ply-if-checked leaves with Material, hash, TUROCHAMP, BERNSTEIN, SARGON evaluators) on a generated root with history (mating nets, sparse endings, shuffled histories with repetitions looming, clocks 94-99, middlegames, synthetic, promotion races, mate and stalemate roots), depth chosen by branching (1-7) so that the reference stays within its node budget; compared: score, PV legality/length/first-move value, board hand-back; drawnarrival: a root from which the side to move can repeat a position for the third time, searched with a table holding the truthful exact entry of that position at the remaining depth: the repetition still counts as zero; distinct = distinct (configuration, depth, history)",
		Assumptions: []string{"the tree (legal moves, draw flags) is the board's own: C01/C05 monitor those independently", "explorations used select at least one legal move whenever one exists (C20)", "a mate delivered exactly at the horizon is a leaf (both searches evaluate it statically), mirrored by the reference"},
		Setup:       validateOracle,
		Timeout:     minutes(15, 120),
		Cases: func(tier string, seed int64) []fw.Case {
			l := mkCases(nil, "searches", 64, seed, pick(tier, 40, 400))
			l = mkCases(l, "drawnarrival", 8, seed, pick(tier, 60, 2000))
			return mkCases(l, "movelist", 8, seed, pick(tier, 300, 20000))
		},
		Floors: func(string) map[string]int64 {
			return map[string]int64{"drawn_arrival_searches": 200, "quiet_leaf_on_drawish_root": 100, "clock100_below_horizon": 20, "clock99_quiet_mate_roots": 20, "searches": 1500, "root_mate_for_ge3": 20, "root_mate_against_ge2": 5, "draw_inside_tree": 100, "stalemate_inside_tree": 50, "selective_pruned": 100, "drawn_root": 5, "moveless_root": 10, "movelists": 2000, "movelists_over_128_moves": 100, "crowded_roots": 50}
		},
		Run: runC03,
	})
	fw.Register(&fw.Monitor{
		ID:          "C13",
		Level:       "exploration",
		Technique:   "runtime differential oracle: windowed alpha-beta and quiescence results checked against the window contract around the reference value (comparison in the reference's own order)",
		Rule:        "for generated roots/configurations/depths as in C03 the reference value v is computed once, then up to 14 windows (a,b) drawn around v (v-e..v+e, bounds equal to v, far below/above, mate-valued bounds M+-1..9, won, lost, in all combinations) are searched: r=v inside, v<=r<=a below, b<=r<=v above; quiescence is also called directly with windows: same contract, never below the static evaluation when a legal move exists, exact at mate/stalemate; distinct = distinct (configuration, depth, history)",
		Assumptions: []string{"as C03"},
		Setup:       validateOracle,
		Timeout:     minutes(15, 120),
		Cases: func(tier string, seed int64) []fw.Case {
			l := mkCases(nil, "windows", 64, seed, pick(tier, 20, 250))
			return mkCases(l, "mindepth", 32, seed, pick(tier, 60, 600))
		},
		Floors: func(string) map[string]int64 {
			return map[string]int64{"windowed_searches": 5000, "windowed_quiet": 500, "win_inside": 500, "win_fail_low": 500, "win_fail_high": 500, "win_mate_bound": 1000, "quiet_terminal": 20, "min_depth_table_depth3_searches": 2000}
		},
		Run: runC13,
	})
}
