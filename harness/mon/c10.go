package mon

import (
	"context"
	"fmt"
	"math/rand"
	"os"
	"runtime"
	"strconv"
	"strings"
	"time"

	"github.com/herohde/morlock/pkg/board"
	"github.com/herohde/morlock/pkg/engine"
	"github.com/herohde/morlock/pkg/engine/uci"

	"verif/adapt"
	"verif/fw"
	"verif/gen"
	"verif/ref"
)

// C10 — the engine game always equals the one the last position command describes.

type lineGame struct {
	start ref.Pos
	moves []ref.Move
}

func (g lineGame) cmd(startposOK bool) string { return positionCmd(g.start, g.moves, startposOK) }

func (g lineGame) game() *ref.Game { return ref.NewGameFrom(g.start, g.moves) }

func randomLine(r *rand.Rand, i int) lineGame {
	starts := gen.Starts()
	var start ref.Pos
	switch i % 4 {
	case 0, 1:
		start = starts[0]
	case 2:
		start = starts[r.Intn(len(starts))]
		start.Half, start.Full = r.Intn(60), 1+r.Intn(90)
	default:
		start = gen.SynthOK(r)
	}
	h := gen.Playout(r, start, r.Intn(40), gen.Biases[r.Intn(len(gen.Biases))])
	return lineGame{h.Start, h.Moves}
}

// compareEngine checks the engine's game against the game a command describes.
func compareEngine(c *fw.Ctx, s *uciSession, g lineGame, what string) bool {
	c.Eval(1)
	c.Count("state_checks", 1)
	game := g.game()
	if got, want := s.e.Position(), game.Cur.FEN(); got != want {
		c.Violate("position:fen", "engine reports %q, the last position command describes %q: %s", got, want, what)
		return false
	}
	scratch, err := adapt.Board(zt0, g.start)
	if err != nil {
		return true
	}
	for _, m := range g.moves {
		if !adapt.Push(scratch, m) {
			return true
		}
	}
	if d := adapt.TakeSnap(s.e.Board()).Diff(adapt.TakeSnap(scratch)); d != "" {
		c.Violate("position:state", "engine game differs from the game set up from scratch (%s): %s", d, what)
		return false
	}
	return true
}

func spaced(r *rand.Rand, line string) string {
	switch r.Intn(4) {
	case 0:
		return line + " "
	case 1:
		return strings.Replace(line, " ", "  ", 1+r.Intn(3))
	case 2:
		return " " + line + "  "
	default:
		f := strings.Fields(line)
		k := 1 + r.Intn(len(f)-1+1)
		if k >= len(f) {
			k = len(f) - 1
		}
		if k < 1 {
			return line + " "
		}
		return strings.Join(f[:k], " ") + "   " + strings.Join(f[k:], " ")
	}
}

// flipSomeColours changes the colour of one or more non-king men in place (same squares, same clocks, same
// castling letters), keeping the position legal. In FEN text only the case of letters changes.
func flipSomeColours(r *rand.Rand, p ref.Pos) (ref.Pos, bool) {
	for try := 0; try < 30; try++ {
		q := p
		n := 0
		for sq, v := range p.B {
			if v == 0 || v == ref.King || v == -ref.King {
				continue
			}
			if r.Intn(3) == 0 {
				q.B[sq] = -v
				n++
			}
		}
		if n == 0 || q.Key() == p.Key() {
			continue
		}
		// castling letters and e.p. stay textually identical; require them to remain consistent
		ok := q.EP < 0 && !q.InCheck(!q.White)
		for _, f := range []struct {
			flag     uint8
			ksq, rsq int
			sign     int8
		}{{ref.CastleWK, 4, 7, 1}, {ref.CastleWQ, 4, 0, 1}, {ref.CastleBK, 60, 63, -1}, {ref.CastleBQ, 60, 56, -1}} {
			if q.Cast&f.flag != 0 && (q.B[f.ksq] != f.sign*ref.King || q.B[f.rsq] != f.sign*ref.Rook) {
				ok = false
			}
		}
		if ok {
			return q, true
		}
	}
	return p, false
}

func ifNotContains(line, s string) string {
	if strings.Contains(line, s) {
		return ""
	}
	return s
}

func ifNoMoves(g lineGame, s string) string {
	if len(g.moves) == 0 {
		return s
	}
	return ""
}

// legalOr returns the text of a random legal move (or a harmless token if there is none).
func legalOr(p ref.Pos, r *rand.Rand) string {
	if ms := p.LegalMoves(); len(ms) > 0 {
		return ms[r.Intn(len(ms))].String()
	}
	return "e2e4"
}

// pseudoIllegal returns the text of a move the rules forbid only because of check (a pinned piece leaving its
// line, the king stepping onto an attacked square, castling out of or through check), if the position has one.
func pseudoIllegal(p ref.Pos) string {
	pos, err := adapt.Position(p)
	if err != nil {
		return ""
	}
	legal := map[string]bool{}
	for _, m := range p.LegalMoves() {
		legal[m.String()] = true
	}
	for _, bm := range pos.PseudoLegalMoves(adapt.BColor(p.White)) {
		if s := adapt.TupleOfB(bm).String(); !legal[s] {
			return s
		}
	}
	return ""
}

// c10Tournament: sessions as a match GUI drives them: a large hash table set once, ucinewgame (often twice)
// before every game.
var c10Tournament bool

func c10Session(c *fw.Ctx, r *rand.Rand, idx int) {
	rc := &recipes[[]int{0, 0, 1, 2, 3}[r.Intn(5)]]
	s := newUCISession(rc, engine.Options{Depth: 1, Hash: 0}, 0, false, 1, false)
	tournament := c10Tournament && r.Intn(2) == 0
	if tournament {
		s.send("setoption name Hash value 256")
		c.Count("tournament_sessions", 1)
	}
	what := func() string { return fmt.Sprintf("engine %s: %s", rc.name, s.transcript(16)) }
	if _, ok := s.sync(); !ok {
		c.Violate("position:no-readyok", "no readyok after start-up: %s", what())
		return
	}
	cur := randomLine(r, idx)
	startposOK := true
	apply := func(line string, g lineGame, kind string) bool {
		s.send(line)
		if _, ok := s.sync(); !ok {
			c.Violate("position:no-readyok", "isready unanswered after %q: %s\n%s", line, what(), stacks())
			return false
		}
		c.Count("cmd_"+kind, 1)
		if !compareEngine(c, s, g, fmt.Sprintf("after %s command: %s", kind, what())) {
			return false
		}
		if r.Intn(4) == 0 {
			// ... and it stays that way while nothing is sent (no late effect of an earlier command)
			time.Sleep(time.Duration(1+r.Intn(40)) * time.Millisecond)
			c.Count("settled_rechecks", 1)
			return compareEngine(c, s, g, fmt.Sprintf("some milliseconds after the %s command was acknowledged, nothing sent since: %s", kind, what()))
		}
		return true
	}
	if !apply(cur.cmd(startposOK), cur, "fresh") {
		s.shutdown(true)
		return
	}
	n := 2 + r.Intn(10)
	for step := 0; step < n; step++ {
		kind := r.Intn(15)
		if tournament && r.Intn(3) == 0 {
			kind = 8
		}
		next := cur
		line := ""
		name := ""
		switch kind {
		case 0, 1: // extension by 1-4 moves
			g := cur.game()
			next = lineGame{cur.start, append([]ref.Move{}, cur.moves...)}
			for k := 0; k < 1+r.Intn(4); k++ {
				ms := g.Cur.LegalMoves()
				if len(ms) == 0 {
					break
				}
				var prev *ref.Move
				if len(next.moves) >= 2 {
					prev = &next.moves[len(next.moves)-2]
				}
				m := gen.Pick(r, &g.Cur, ms, gen.Shuffly, prev)
				g.Push(m)
				next.moves = append(next.moves, m)
			}
			line, name = next.cmd(startposOK), "extension"
		case 2: // verbatim repeat
			line, name = cur.cmd(startposOK), "repeat"
		case 3: // repeat / extension with odd white space
			line, name = spaced(r, cur.cmd(startposOK)), "whitespace"
		case 4: // truncation
			if len(cur.moves) == 0 {
				continue
			}
			next = lineGame{cur.start, append([]ref.Move{}, cur.moves[:len(cur.moves)-1-r.Intn(len(cur.moves))]...)}
			line, name = next.cmd(startposOK), "truncation"
		case 5: // same prefix, different last move
			if len(cur.moves) == 0 {
				continue
			}
			pre := lineGame{cur.start, append([]ref.Move{}, cur.moves[:len(cur.moves)-1]...)}
			ms := pre.game().Cur.LegalMoves()
			m := ms[r.Intn(len(ms))]
			next = lineGame{cur.start, append(pre.moves, m)}
			line, name = next.cmd(startposOK), "other-last-move"
		case 6: // a different game altogether
			next = randomLine(r, r.Intn(100))
			startposOK = r.Intn(2) == 0
			line, name = next.cmd(startposOK), "fresh"
		case 7: // the same line spelled the other way (startpos <-> fen)
			startposOK = !startposOK
			line, name = cur.cmd(startposOK), "respelled"
		case 8: // ucinewgame in between (sometimes twice in a row, as GUIs do between matches)
			s.send("ucinewgame")
			if r.Intn(3) == 0 || tournament {
				s.send("ucinewgame")
			}
			if r.Intn(2) == 0 {
				next = randomLine(r, r.Intn(100))
			}
			line, name = next.cmd(startposOK), "after-ucinewgame"
		case 9: // FEN whose text extends the previous FEN (clock digits): a different game, not a continuation
			base := cur.game().Cur
			base.Half, base.Full = r.Intn(10), 1+r.Intn(9)
			first := lineGame{base, nil}
			if !apply(first.cmd(false), first, "fen-prefix-base") {
				s.shutdown(true)
				return
			}
			ext := base
			ext.Full, _ = strconv.Atoi(strconv.Itoa(base.Full) + strconv.Itoa(r.Intn(10)))
			next = lineGame{ext, nil}
			if r.Intn(2) == 0 {
				h := gen.Playout(r, ext, 1+r.Intn(4), gen.Neutral)
				next = lineGame{h.Start, h.Moves}
			}
			line, name = next.cmd(false), "fen-prefix-trap"
		case 10: // the current position spelled as a bare FEN: a new game without history
			fp := cur.game().Cur
			next = lineGame{fp, nil}
			line, name = next.cmd(false), "fen-of-current"
		case 11: // a FEN that differs from the previous FEN line only in the case of piece letters (colours swapped)
			base := cur.game().Cur
			first := lineGame{base, nil}
			if !apply(first.cmd(false), first, "case-flip-base") {
				s.shutdown(true)
				return
			}
			cur, next = first, first
			flipped, ok := flipSomeColours(r, base)
			if !ok {
				continue
			}
			next = lineGame{flipped, nil}
			if r.Intn(2) == 0 {
				// extra moves that are legal in both positions make the confusion silent
				for _, m := range flipped.LegalMoves() {
					if _, also := base.FindMove(m.From, m.To, m.Promo); also {
						next = lineGame{flipped, []ref.Move{m}}
						break
					}
				}
			}
			line, name = next.cmd(false), "case-flip"
		case 13: // a position line the driver has to reject, then a well-formed one again: the well-formed one counts
			g := cur.game()
			var bad string
			badFEN := false
			switch bk := r.Intn(5); bk {
			case 0: // a move that is not legal (not even pseudo-legal), at the end of the current line
				bad = cur.cmd(startposOK) + ifNoMoves(cur, " moves") + " " + []string{"e2e5", "a1a1", "h7h9", "zzzz", "e7e8k"}[r.Intn(5)]
			case 1: // a pseudo-legal but illegal move (king into check, pinned piece, castling through check) if there is one
				if s := pseudoIllegal(g.Cur); s != "" {
					bad = cur.cmd(startposOK) + ifNoMoves(cur, " moves") + " " + s
				} else {
					bad = cur.cmd(startposOK) + ifNoMoves(cur, " moves") + " e1e1"
				}
			case 2: // good moves, a bad one, more moves
				bad = cur.cmd(startposOK) + ifNoMoves(cur, " moves") + " " + legalOr(g.Cur, r) + " x9x9 e2e4"
			case 3: // a FEN that does not decode
				badFEN = true
				bad = "position fen " + []string{"8/8/8/8/8/8/8/9 w - - 0 1", "rnbqkbnr/pppppppp/8/8/8/8/PPPPPPPP/RNBQKBN w KQkq - 0 1", "4k3/8/8/8/8/8/8/4K3 x - - 0 1", "4k3/8/8/8/8/8/8/4K3 w - - zero 1"}[r.Intn(4)]
			default: // ... followed by moves that would be legal in the game still on the board
				badFEN = true
				bad = "position fen 8/8/8/8/8/8/8/9 w - - 0 1 moves " + legalOr(g.Cur, r)
			}
			s.send(bad)
			if _, ok := s.sync(); !ok {
				c.Violate("position:no-readyok", "isready unanswered after %q: %s\n%s", bad, what(), stacks())
				s.shutdown(true)
				return
			}
			// a line whose FEN does not decode sets nothing up: the game of the last accepted command stays
			if badFEN && !compareEngine(c, s, cur, fmt.Sprintf("after the rejected line %q: %s", bad, what())) {
				s.shutdown(true)
				return
			}
			if r.Intn(2) == 0 { // the rejected line once more, verbatim or extended (a GUI re-sending)
				again := bad + []string{"", ifNotContains(bad, " moves") + " e2e4", ifNotContains(bad, " moves") + " " + legalOr(g.Cur, r)}[r.Intn(3)]
				s.send(again)
				s.sync()
				if badFEN && !compareEngine(c, s, cur, fmt.Sprintf("after the rejected lines %q and %q: %s", bad, again, what())) {
					s.shutdown(true)
					return
				}
			}
			c.Count("cmd_rejected-line", 1)
			// what the engine holds now is not specified; the next well-formed command is
			switch r.Intn(4) {
			case 0:
				line, name = cur.cmd(startposOK), "repeat-after-rejected"
			case 1:
				if len(cur.moves) > 0 {
					next = lineGame{cur.start, append([]ref.Move{}, cur.moves[:len(cur.moves)-1]...)}
				}
				line, name = next.cmd(startposOK), "truncation-after-rejected"
			default:
				next = lineGame{cur.start, append([]ref.Move{}, cur.moves...)}
				for k := 0; k < 1+r.Intn(2); k++ {
					ms := g.Cur.LegalMoves()
					if len(ms) == 0 {
						break
					}
					m := ms[r.Intn(len(ms))]
					g.Push(m)
					next.moves = append(next.moves, m)
				}
				line, name = next.cmd(startposOK), "extension-after-rejected"
			}
		case 12: // an option set between two position commands is not a position command: the game stays
			opt := []string{
				fmt.Sprintf("setoption name Hash value %d", []int{0, 1, 2, 4, 8, 256}[r.Intn(6)]),
				fmt.Sprintf("setoption name Noise value %d", []int{0, 5, 50}[r.Intn(3)]),
				fmt.Sprintf("setoption name Depth value %d", 1+r.Intn(3)),
				"setoption name OwnBook value false",
			}[r.Intn(4)]
			s.send(opt)
			if _, ok := s.sync(); !ok {
				c.Violate("position:no-readyok", "isready unanswered after %q: %s", opt, what())
				s.shutdown(true)
				return
			}
			c.Count("cmd_setoption-in-between", 1)
			if !compareEngine(c, s, cur, fmt.Sprintf("after %q (no position command since): %s", opt, what())) {
				s.shutdown(true)
				return
			}
			continue
		default: // a search in between must not disturb the game
			m := s.send("go depth 1")
			s.waitLine(m, isBestmove, uciWatchdog)
			line, name = cur.cmd(startposOK), "repeat-after-go"
			if r.Intn(2) == 0 {
				name = "state-after-go"
				if _, ok := s.sync(); ok {
					compareEngine(c, s, cur, "after go depth 1: "+what())
				}
				continue
			}
		}
		if !apply(line, next, name) {
			s.shutdown(true)
			return
		}
		cur = next
	}
	// future repetition behaviour: extend by a reversible shuffle until the rules say threefold
	g := cur.game()
	line := lineGame{cur.start, append([]ref.Move{}, cur.moves...)}
	for k := 0; k < 40; k++ {
		ms := g.Cur.LegalMoves()
		if len(ms) == 0 {
			break
		}
		var prev *ref.Move
		if len(line.moves) >= 2 {
			prev = &line.moves[len(line.moves)-2]
		}
		bias := gen.Shuffly
		bias.Shuffle = 0.95
		m := gen.Pick(r, &g.Cur, ms, bias, prev)
		ev := g.Push(m)
		line.moves = append(line.moves, m)
		s.send(line.cmd(startposOK))
		if _, ok := s.sync(); !ok {
			c.Violate("position:no-readyok", "isready unanswered: %s", what())
			break
		}
		drawn := s.e.Board().Result().Outcome == board.Draw
		c.Eval(1)
		c.Count("repetition_probe_plies", 1)
		if ev.Count >= 3 {
			c.Count("repetition_probes_reached", 1)
			if !drawn {
				c.Violate("position:history", "the position has occurred %d times in the game the commands describe, the engine's game does not report a draw: %s", ev.Count, what())
			}
			break
		}
		if !g.EverDrawn && drawn {
			c.Violate("position:history", "engine's game reports a draw (%v) although nothing in the described game justifies it: %s", s.e.Board().Result(), what())
			break
		}
	}
	s.shutdown(r.Intn(2) == 0)
	c.Count("sessions", 1)
	c.Distinct(s.transcript(1000))
	if idx%64 == 0 {
		c.Sample(map[string]any{"engine": rc.name, "transcript": s.transcript(12)})
	}
}

// c10Stdin wires an engine the way cmd/*/main.go does (ReadStdinLines -> uci.NewDriver) with the process's
// standard input replaced by a pipe, and sends it position lines of real-world and extreme lengths: long games
// (hundreds to 1500 plies on one line, i.e. far beyond any reader buffer), CRLF line ends, a last line without
// newline. After each line the engine's game must be the one the line describes.
func c10Stdin(c *fw.Ctx, r *rand.Rand, idx int) {
	ctx := context.Background()
	pr, pw, err := os.Pipe()
	if err != nil {
		return
	}
	old := os.Stdin
	os.Stdin = pr
	defer func() { os.Stdin = old }()
	rc := &recipes[[]int{0, 0, 1, 2, 3}[r.Intn(5)]]
	e := rc.newEngine(ctx, engine.Options{Depth: 1, Hash: 0}, 0, nil)
	in := engine.ReadStdinLines(ctx)
	eol := "\n"
	if r.Intn(3) == 0 {
		eol = "\r\n"
	}
	fmt.Fprint(pw, "uci"+eol)
	select {
	case l := <-in:
		if l != "uci" {
			c.Violate("position:stdin", "first line %q read from standard input as %q", "uci", l)
			return
		}
	case <-time.After(uciWatchdog):
		c.Inconclusive("stdin reader did not deliver the first line")
		return
	}
	d, out := uci.NewDriver(ctx, e, in)
	ready := make(chan struct{}, 64)
	closed := make(chan struct{})
	go func() {
		defer close(closed)
		for l := range out {
			if l == "readyok" {
				ready <- struct{}{}
			}
		}
	}()
	s := &uciSession{rc: rc, e: e, d: d}
	sync := func() bool {
		fmt.Fprint(pw, "isready"+eol)
		select {
		case <-ready:
			return true
		case <-time.After(uciWatchdog):
			return false
		}
	}
	starts := gen.Starts()
	var cur lineGame
	for step := 0; step < 3+r.Intn(3); step++ {
		// a long game: both sides mostly shuffle, so that it neither ends nor runs out of moves
		plies := []int{30, 300, 700, 1000, 1500}[r.Intn(5)]
		if step > 0 && r.Intn(2) == 0 && len(cur.game().Cur.LegalMoves()) > 0 {
			// extension of the previous (long) line
			h := gen.Playout(r, cur.game().Cur, 1+r.Intn(4), gen.Shuffly)
			cur = lineGame{cur.start, append(append([]ref.Move{}, cur.moves...), h.Moves...)}
		} else {
			h := gen.Playout(r, starts[[]int{0, 0, 1, 5}[r.Intn(4)]], plies, gen.Shuffly)
			cur = lineGame{h.Start, h.Moves}
		}
		line := cur.cmd(r.Intn(2) == 0)
		fmt.Fprint(pw, line+eol)
		if !sync() {
			c.Violate("position:no-readyok", "isready unanswered after a position line of %d bytes (%d plies) on standard input\n%s", len(line), len(cur.moves), stacks())
			break
		}
		c.Count("stdin_lines", 1)
		if len(line) > 4096 {
			c.Count("stdin_lines_over_4k", 1)
		}
		if len(line) > 65536/8 {
			c.Count("stdin_lines_over_8k", 1)
		}
		c.Distinct(line)
		head := line
		if len(head) > 120 {
			head = head[:120] + "..."
		}
		if !compareEngine(c, s, cur, fmt.Sprintf("engine %s fed through standard input (line ends %q), after a position line of %d bytes, %d plies: %s", rc.name, eol, len(line), len(cur.moves), head)) {
			break
		}
	}
	// the last line has no newline: end of input must still deliver it and then shut the driver down
	fmt.Fprint(pw, "isready")
	pw.Close()
	select {
	case <-closed:
	case <-time.After(uciWatchdog):
		c.Violate("position:stdin-eof", "driver did not shut down at the end of standard input\n%s", stacks())
	}
	select {
	case <-ready:
	default:
		c.Violate("position:stdin-eof", "a last line without newline (isready) was not delivered before the end of input")
	}
	pr.Close()
}

func init() {
	fw.Register(&fw.Monitor{
		ID:          "C10",
		Level:       "exploration",
		Race:        true,
		Technique:   "runtime reference-model monitor: after every position/ucinewgame command (synchronised by isready/readyok) the engine's game is compared with the game the command describes, built from scratch, and probed for its future repetition behaviour",
		Rule:        "sessions of 3-13 commands: fresh startpos/FEN lines with 0-40 moves, extension by 1-4 moves, verbatim repeat, odd white space, truncation, different last move, respelling startpos<->fen, ucinewgame, FEN whose clock digits extend the previous FEN, searches, option changes (Hash, Noise, Depth, OwnBook) and rejected lines (illegal / pseudo-legal-illegal / garbage move, undecodable FEN with or without moves, re-sent) in between - the next well-formed line (repeat, truncation, extension of the last accepted one) must count; after each command: Engine.Position() vs oracle FEN and full board snapshot (position, side, hash, clocks, ply, castled flags, last moves, result) vs a board set up from scratch; at the end the line is extended by reversible shuffles until the oracle counts three occurrences: the engine's game must report the draw at that ply and not earlier; sessions1p: the same sessions with GOMAXPROCS(1); stdin: an engine wired like cmd/*/main.go (ReadStdinLines -> driver) with standard input replaced by a pipe, position lines of 30-1500 plies (up to ~8 KiB), LF/CRLF, last line without newline; distinct = distinct session transcripts",
		Assumptions: []string{"commands are well-formed position lines (malformed ones are C16's subject)"},
		Setup:       validateOracle,
		Timeout:     minutes(15, 120),
		Cases: func(tier string, seed int64) []fw.Case {
			l := mkCases(nil, "sessions", 64, seed, pick(tier, 5, 300))
			l = mkCases(l, "sessions1p", 8, seed, pick(tier, 6, 150))
			return mkCases(l, "stdin", 8, seed, pick(tier, 3, 60))
		},
		Floors: func(string) map[string]int64 {
			return map[string]int64{"sessions": 200, "state_checks": 1500, "cmd_extension": 100, "cmd_repeat": 50, "cmd_whitespace": 50, "cmd_truncation": 50, "cmd_fen-prefix-trap": 50, "cmd_after-ucinewgame": 50, "cmd_fen-of-current": 50, "cmd_case-flip": 30, "cmd_setoption-in-between": 50, "cmd_rejected-line": 50, "cmd_repeat-after-rejected": 10, "cmd_extension-after-rejected": 20, "repetition_probes_reached": 100, "stdin_lines": 40, "settled_rechecks": 100, "stdin_lines_over_4k": 10}
		},
		Run: func(c *fw.Ctx, cs fw.Case) {
			r := cs.Rand()
			if cs.Kind == "sessions1p" {
				// the same sessions on a single processor (a one-CPU container): goroutines the driver starts
				// run only when the command loop blocks, which reorders everything that was left to chance
				defer runtime.GOMAXPROCS(runtime.GOMAXPROCS(1))
				c10Tournament = true
				defer func() { c10Tournament = false }()
			}
			for i := 0; i < cs.N; i++ {
				if cs.Kind == "stdin" {
					c10Stdin(c, r, cs.Idx*1000+i)
					continue
				}
				c10Session(c, r, cs.Idx*1000+i)
			}
		},
	})
}
