package mon

import (
	"fmt"
	"math/rand"
	"sort"
	"sync"

	"github.com/herohde/morlock/cmd/sargon/sargon"
	"github.com/herohde/morlock/pkg/board"
	"github.com/herohde/morlock/pkg/eval"

	"verif/adapt"
	"verif/fw"
	"verif/gen"
	"verif/ref"
)

// C06 — attack relation (tables, exhaustively over line states) and the derived queries.

func init() {
	fw.Register(&fw.Monitor{
		ID:        "C06",
		Level:     "exploration",
		Technique: "runtime differential oracle: attack tables vs ray walking (line states enumerated exhaustively), derived queries vs independent rules implementation on generated positions",
		Rule: "tables: every (square, line kind, 8-bit line state) plus random full occupancies and random Xor sequences, attack set compared with ray walking; " +
			"derived: generated positions (random playouts from curated starts, synthetic odd-material positions), each checked on 64 squares x 2 colours for IsAttacked/IsDefended/FindCapture, both kings for IsChecked/IsCheckMate, FindPins for king and queen and the pin table SARGON builds from it; parallel: the derived checks from six goroutines at once (race build); distinct = distinct (square,kind,occupancy) line states + distinct positions",
		Assumptions: []string{"reference ray walker (package ref), validated against published perft numbers at start-up"},
		Exhaustive:  func(string) bool { return false },
		RaceKinds:   map[string]bool{"parallel": true},
		Setup:       validateOracle,
		Timeout:     minutes(10, 60),
		Cases: func(tier string, seed int64) []fw.Case {
			var l []fw.Case
			for sq := 0; sq < 64; sq++ {
				l = append(l, fw.Case{Idx: len(l), Kind: "lines", N: sq})
			}
			l = append(l, fw.Case{Idx: len(l), Kind: "leapers"})
			l = mkCases(l, "pawns", 16, seed, pick(tier, 5000, 400000))
			l = mkCases(l, "occ", 16, seed, pick(tier, 4000, 400000))
			l = mkCases(l, "xor", 16, seed, pick(tier, 2000, 200000))
			l = mkCases(l, "derived", 32, seed, pick(tier, 400, 40000))
			l = mkCases(l, "parallel", 4, seed, pick(tier, 60, 3000))
			return l
		},
		Floors: func(tier string) map[string]int64 {
			return map[string]int64{"line_states": 40000, "derived_positions": 1000, "pins_found": 50, "checks_seen": 20, "mates_seen": 1, "captures_found": 1000, "ep_only_defence_positions": 8, "double_pin_shapes": 500, "parallel_positions": 1000, "pin_tables_with_two_pinned": 50}
		},
		Run: runC06,
	})
}

func occToRef(occ board.Bitboard) ref.Pos {
	var p ref.Pos
	p.EP = -1
	for sq := board.ZeroSquare; sq < board.NumSquares; sq++ {
		if occ.IsSet(sq) {
			p.B[adapt.RSq(sq)] = ref.Pawn // any blocker
		}
	}
	return p
}

func checkSliders(c *fw.Ctx, occ board.Bitboard, sq board.Square, what string) {
	rb := board.NewRotatedBitboard(occ)
	p := occToRef(occ)
	rs := adapt.RSq(sq)
	for _, k := range []struct {
		name string
		got  board.Bitboard
		kind int
	}{
		{"rook", board.RookAttackboard(rb, sq), ref.Rook},
		{"bishop", board.BishopAttackboard(rb, sq), ref.Bishop},
		{"queen", board.QueenAttackboard(rb, sq), ref.Queen},
	} {
		want := bbOf(p.Reach(rs, k.kind, true))
		c.Eval(1)
		if k.got != want {
			c.Violate(fmt.Sprintf("table:%s:%v", k.name, sq), "%s attack board from %v with occupancy %016x (%s): got %016x want %016x", k.name, sq, uint64(occ), what, uint64(k.got), uint64(want))
		}
		if ab := board.Attackboard(rb, sq, adapt.BPiece(k.kind)); ab != k.got {
			c.Violate(fmt.Sprintf("table:dispatch:%s", k.name), "Attackboard(%s) differs from the specific function at %v", k.name, sq)
		}
	}
}

func runC06(c *fw.Ctx, cs fw.Case) {
	switch cs.Kind {
	case "lines":
		sq := board.Square(cs.N)
		rs := adapt.RSq(sq)
		f0, r0 := ref.File(rs), ref.Rank(rs)
		// the four lines through sq, as lists of ref squares
		var lines [4][]int
		for i := 0; i < 8; i++ {
			lines[0] = append(lines[0], ref.Sq(i, r0)) // rank
			lines[1] = append(lines[1], ref.Sq(f0, i)) // file
		}
		for f := 0; f < 8; f++ {
			if r := r0 + (f - f0); r >= 0 && r < 8 {
				lines[2] = append(lines[2], ref.Sq(f, r))
			}
			if r := r0 - (f - f0); r >= 0 && r < 8 {
				lines[3] = append(lines[3], ref.Sq(f, r))
			}
		}
		names := []string{"rank", "file", "diag", "antidiag"}
		for li, line := range lines {
			n := len(line)
			for state := 0; state < 1<<n; state++ {
				var occ board.Bitboard
				for i := 0; i < n; i++ {
					if state&(1<<i) != 0 {
						occ |= board.BitMask(adapt.BSq(line[i]))
					}
				}
				checkSliders(c, occ, sq, names[li])
				c.DistinctHash(uint64(occ)*0x9E3779B97F4A7C15 ^ uint64(sq)<<56 ^ uint64(li)<<50)
				c.Count("line_states", 1)
			}
		}
		if cs.N == 27 {
			c.Sample(map[string]any{"kind": "lines", "square": sq.String(), "lines": "all 2^len states of rank, file and both diagonals through the square"})
		}
	case "leapers":
		var p ref.Pos
		for sq := board.ZeroSquare; sq < board.NumSquares; sq++ {
			rs := adapt.RSq(sq)
			c.Eval(2)
			if got, want := board.KingAttackboard(sq), bbOf(p.Reach(rs, ref.King, true)); got != want {
				c.Violate(fmt.Sprintf("table:king:%v", sq), "king board %v: got %016x want %016x", sq, uint64(got), uint64(want))
			}
			if got, want := board.KnightAttackboard(sq), bbOf(p.Reach(rs, ref.Knight, true)); got != want {
				c.Violate(fmt.Sprintf("table:knight:%v", sq), "knight board %v: got %016x want %016x", sq, uint64(got), uint64(want))
			}
			for _, white := range []bool{true, false} {
				got := board.PawnCaptureboard(adapt.BColor(white), board.BitMask(sq))
				want := bbOf(p.Reach(rs, ref.Pawn, white))
				c.Eval(1)
				if got != want {
					c.Violate(fmt.Sprintf("table:pawn:%v:%v", white, sq), "pawn capture board white=%v %v: got %016x want %016x", white, sq, uint64(got), uint64(want))
				}
			}
			c.Count("leaper_squares", 1)
		}
	case "pawns":
		r := cs.Rand()
		var p ref.Pos
		for i := 0; i < cs.N; i++ {
			pawns := board.Bitboard(r.Uint64())
			switch i % 3 {
			case 1:
				pawns &= board.Bitboard(r.Uint64())
			case 2:
				pawns &= board.Bitboard(r.Uint64()) & board.Bitboard(r.Uint64())
			}
			for _, white := range []bool{true, false} {
				var want board.Bitboard
				for _, sq := range pawns.ToSquares() {
					want |= bbOf(p.Reach(adapt.RSq(sq), ref.Pawn, white))
				}
				got := board.PawnCaptureboard(adapt.BColor(white), pawns)
				c.Eval(1)
				if got != want {
					c.Violate("table:pawnset", "pawn capture board white=%v pawns=%016x: got %016x want %016x", white, uint64(pawns), uint64(got), uint64(want))
				}
			}
			c.Count("pawn_sets", 1)
		}
	case "occ":
		r := cs.Rand()
		for i := 0; i < cs.N; i++ {
			occ := board.Bitboard(r.Uint64())
			switch i % 4 {
			case 1:
				occ &= board.Bitboard(r.Uint64())
			case 2:
				occ &= board.Bitboard(r.Uint64()) & board.Bitboard(r.Uint64())
			case 3:
				occ |= board.Bitboard(r.Uint64())
			}
			// a handful of squares per occupancy
			for j := 0; j < 8; j++ {
				checkSliders(c, occ, board.Square(r.Intn(64)), "random")
			}
			c.DistinctHash(uint64(occ))
			c.Count("random_occupancies", 1)
			if i == 0 && cs.Idx%16 == 0 {
				c.Sample(map[string]any{"kind": "occ", "occupancy": fmt.Sprintf("%016x", uint64(occ))})
			}
		}
	case "xor":
		r := cs.Rand()
		for i := 0; i < cs.N; i++ {
			var rb board.RotatedBitboard
			var mask board.Bitboard
			steps := 1 + r.Intn(40)
			for s := 0; s < steps; s++ {
				sq := board.Square(r.Intn(64))
				rb = rb.Xor(sq)
				mask ^= board.BitMask(sq)
			}
			c.Eval(1)
			if rb != board.NewRotatedBitboard(mask) || rb.Mask() != mask {
				c.Violate("table:xor", "incremental rotation differs from from-scratch rotation for mask %016x", uint64(mask))
			}
			c.Count("xor_sequences", 1)
		}
	case "parallel":
		// the queries are pure functions of the position: several goroutines asking at once (engines searching
		// side by side do) must each get the answers they get alone; run on the race build. The positions are
		// drawn first and the goroutines released together, so that the very first queries of this worker
		// process - whatever the package still sets up lazily - are made concurrently.
		var wg sync.WaitGroup
		start := make(chan struct{})
		var ready sync.WaitGroup
		for g := 0; g < 6; g++ {
			wg.Add(1)
			ready.Add(1)
			go func(g int) {
				defer wg.Done()
				r := rand.New(rand.NewSource(fw.Mix(cs.Seed, int64(g)+1000)))
				ps := make([]ref.Pos, 0, cs.N)
				for i := 0; i < cs.N; i++ {
					h := randomHist(r, 60)
					if i%3 == 1 {
						h = gen.Hist{Start: gen.TacticOK(r, r.Intn(gen.NumTactics))}
					}
					ps = append(ps, h.Final())
				}
				ready.Done()
				<-start
				for _, p := range ps {
					derivedChecks(c, p)
					c.Count("parallel_positions", 1)
				}
			}(g)
		}
		ready.Wait()
		close(start)
		wg.Wait()
	case "derived":
		r := cs.Rand()
		if p, ok := gen.EPOnlyDefence(r); ok {
			c.Count("ep_only_defence_positions", 1)
			derivedChecks(c, p)
		}
		for i := 0; i < cs.N; i++ {
			h := randomHist(r, 80)
			switch i % 5 {
			case 1:
				h = gen.Hist{Start: gen.TacticOK(r, r.Intn(gen.NumTactics))}
			case 3:
				h = gen.Hist{Start: gen.TacticOK(r, 12)}
				c.Count("double_pin_shapes", 1)
			}
			derivedChecks(c, h.Final())
			if i == 0 && cs.Idx%8 == 0 {
				fp := h.Final()
				c.Sample(map[string]any{"kind": "derived", "fen": fp.FEN()})
			}
		}
	}
}

func derivedChecks(c *fw.Ctx, p ref.Pos) {
	pos, err := adapt.Position(p)
	if err != nil {
		c.Violate("derived:newposition", "NewPosition failed for %s: %v", p.FEN(), err)
		return
	}
	c.Distinct(p.Key())
	c.Count("derived_positions", 1)
	fen := p.FEN()
	for sq := 0; sq < 64; sq++ {
		bs := adapt.BSq(sq)
		for _, white := range []bool{true, false} {
			col := adapt.BColor(white)
			// IsAttacked(c, sq): attacked by the opponent of c
			c.Eval(3)
			if got, want := pos.IsAttacked(col, bs), p.Attacked(sq, !white); got != want {
				c.Violate("derived:IsAttacked", "IsAttacked(%v,%v)=%v want %v in %s", col, bs, got, want, fen)
			}
			if got, want := pos.IsDefended(col, bs), p.Attacked(sq, white); got != want {
				c.Violate("derived:IsDefended", "IsDefended(%v,%v)=%v want %v in %s", col, bs, got, want, fen)
			}
			// FindCapture(pos, side, sq): pieces of side that target sq
			got := eval.FindCapture(pos, col, bs)
			var gs []string
			for _, pl := range got {
				gs = append(gs, fmt.Sprintf("%d@%d", adapt.RPiece(pl.Piece), adapt.RSq(pl.Square)))
				if pl.Color != col {
					c.Violate("derived:FindCapture:color", "FindCapture colour wrong in %s", fen)
				}
			}
			var ws []string
			for _, a := range p.Attackers(sq, white) {
				v := p.B[a]
				if v < 0 {
					v = -v
				}
				ws = append(ws, fmt.Sprintf("%d@%d", v, a))
			}
			sort.Strings(gs)
			sort.Strings(ws)
			if fmt.Sprint(gs) != fmt.Sprint(ws) {
				c.Violate("derived:FindCapture", "FindCapture(%v,%v)=%v want %v in %s", col, bs, gs, ws, fen)
			}
			c.Count("captures_found", len(ws))
		}
	}
	for _, white := range []bool{true, false} {
		col := adapt.BColor(white)
		c.Eval(1)
		chk := p.InCheck(white)
		if got := pos.IsChecked(col); got != chk {
			c.Violate("derived:IsChecked", "IsChecked(%v)=%v want %v in %s", col, got, chk, fen)
		}
		if chk {
			c.Count("checks_seen", 1)
		}
		for _, kind := range []int{ref.King, ref.Queen} {
			got := eval.FindPins(pos, col, adapt.BPiece(kind))
			var gs, ws []string
			for _, pn := range got {
				gs = append(gs, fmt.Sprintf("%d>%d>%d", adapt.RSq(pn.Attacker), adapt.RSq(pn.Pinned), adapt.RSq(pn.Target)))
			}
			for _, pn := range p.Pins(white, kind) {
				ws = append(ws, fmt.Sprintf("%d>%d>%d", pn.Attacker, pn.Pinned, pn.Target))
			}
			sort.Strings(gs)
			sort.Strings(ws)
			c.Eval(1)
			c.Count("pins_found", len(ws))
			if fmt.Sprint(gs) != fmt.Sprint(ws) {
				c.Violate("derived:FindPins", "FindPins(%v,kind %d)=%v want %v in %s", col, kind, gs, ws, fen)
			}
		}
	}
	// the pin table SARGON derives from the same query (pinned square -> pinning squares, queen-on-queen omitted)
	{
		want := map[int][]int{}
		for _, white := range []bool{true, false} {
			for _, kind := range []int{ref.King, ref.Queen} {
				for _, pn := range p.Pins(white, kind) {
					a, t := p.B[pn.Attacker], p.B[pn.Target]
					if a < 0 {
						a = -a
					}
					if t < 0 {
						t = -t
					}
					if a == t {
						continue
					}
					want[pn.Pinned] = append(want[pn.Pinned], pn.Attacker)
				}
			}
		}
		got := map[int][]int{}
		for sq, l := range sargon.FindKingQueenPins(pos) {
			for _, a := range l {
				got[adapt.RSq(sq)] = append(got[adapt.RSq(sq)], adapt.RSq(a))
			}
		}
		str := func(m map[int][]int) string {
			var l []string
			for k, v := range m {
				sort.Ints(v)
				l = append(l, fmt.Sprintf("%d<-%v", k, v))
			}
			sort.Strings(l)
			return fmt.Sprint(l)
		}
		c.Eval(1)
		if len(want) >= 2 {
			c.Count("pin_tables_with_two_pinned", 1)
		}
		if str(got) != str(want) {
			c.Violate("derived:pin-table", "sargon.FindKingQueenPins=%v want %v in %s", str(got), str(want), fen)
		}
	}
	// attack queries restricted to piece subsets (used by the historical engines)
	subsets := [][]board.Piece{board.KingQueen, board.QueenRookBishop, board.QueenRookKnightBishopPawn, {board.Pawn}, {board.Knight}, {board.King}, board.KingQueenRookKnightBishop}
	for i := 0; i < 24; i++ {
		sq := (i*11 + int(p.Half)) % 64
		white := i%2 == 0
		sub := subsets[i%len(subsets)]
		if i%3 == 2 {
			// a caller's own list: any pieces in any order
			perm := append([]board.Piece{}, board.AllPieces...)
			k := int(p.Half+p.Full+i) % 720
			for j := len(perm) - 1; j > 0; j-- {
				x := k % (j + 1)
				k /= j + 1
				perm[j], perm[x] = perm[x], perm[j]
			}
			sub = perm[:1+(int(p.Half)+i)%len(perm)]
		}
		want := false
		for _, a := range p.Attackers(sq, !white) {
			k := p.B[a]
			if k < 0 {
				k = -k
			}
			for _, pc := range sub {
				if adapt.BPiece(int(k)) == pc {
					want = true
				}
			}
		}
		c.Eval(1)
		c.Count("subset_attack_queries", 1)
		if got := pos.IsAttackedBy(adapt.BColor(white), adapt.BSq(sq), sub); got != want {
			c.Violate("derived:IsAttackedBy", "IsAttackedBy(%v,%v,%v)=%v want %v in %s", adapt.BColor(white), adapt.BSq(sq), sub, got, want, fen)
		}
		if got := pos.IsDefendedBy(adapt.BColor(!white), adapt.BSq(sq), sub); got != want {
			c.Violate("derived:IsDefendedBy", "IsDefendedBy(%v,%v,%v)=%v want %v in %s", adapt.BColor(!white), adapt.BSq(sq), sub, got, want, fen)
		}
	}
	// checkmate for the side to move
	mate := p.InCheck(p.White) && len(p.LegalMoves()) == 0
	c.Eval(1)
	if got := pos.IsCheckMate(adapt.BColor(p.White)); got != mate {
		c.Violate("derived:IsCheckMate", "IsCheckMate(side to move)=%v want %v in %s", got, mate, fen)
	}
	if mate {
		c.Count("mates_seen", 1)
	}
}

var _ = rand.Int
var _ = gen.Neutral
