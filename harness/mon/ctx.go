package mon

import (
	"context"
	"time"
)

// countCtx is a context whose cancellation is a function of how often it has been polled:
// Done() returns an open channel for the first limit-1 calls and a closed one from call number
// limit on. The searches poll through contextx.IsCancelled (a non-blocking receive on Done()),
// so "halt exactly at the n-th poll" becomes a deterministic, enumerable fault. Single goroutine use.
type countCtx struct {
	polls int64
	limit int64 // 0 = never cancel
}

var (
	closedCh = func() chan struct{} { c := make(chan struct{}); close(c); return c }()
	openCh   = make(chan struct{})
)

func (c *countCtx) Deadline() (time.Time, bool) { return time.Time{}, false }
func (c *countCtx) Value(key any) any           { return nil }

func (c *countCtx) Done() <-chan struct{} {
	c.polls++
	if c.limit > 0 && c.polls >= c.limit {
		return closedCh
	}
	return openCh
}

func (c *countCtx) Err() error {
	if c.cancelled() {
		return context.Canceled
	}
	return nil
}

func (c *countCtx) cancelled() bool { return c.limit > 0 && c.polls >= c.limit }

// pollBudget bounds a search that is expected to complete: if it needs more polls (node entries)
// than this, the case is inconclusive rather than a hang.
const pollBudget = 3_000_000

func budgetCtx() *countCtx { return &countCtx{limit: pollBudget} }
