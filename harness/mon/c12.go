package mon

import (
	"context"
	"fmt"
	"math/rand"
	"sync"
	"sync/atomic"
	"time"

	"github.com/herohde/morlock/pkg/board"
	"github.com/herohde/morlock/pkg/eval"
	"github.com/herohde/morlock/pkg/search"
	"github.com/herohde/morlock/pkg/search/searchctl"
	"github.com/seekerror/stdlib/pkg/lang"

	"verif/adapt"
	"verif/fw"
	"verif/gen"
)

// C12 — halting a search at any instant is clean (fault enumeration over cancellation polls).

// haltPoints chooses the poll numbers to halt at: all of them when affordable.
func haltPoints(r *rand.Rand, total int64, maxEnum int) ([]int64, bool) {
	if total <= int64(maxEnum) {
		ns := make([]int64, 0, total)
		for n := int64(1); n <= total; n++ {
			ns = append(ns, n)
		}
		return ns, true
	}
	seen := map[int64]bool{}
	var ns []int64
	add := func(n int64) {
		if n >= 1 && n <= total && !seen[n] {
			seen[n] = true
			ns = append(ns, n)
		}
	}
	edge := int64(maxEnum / 6)
	for n := int64(1); n <= edge; n++ {
		add(n)
		add(total - n + 1)
	}
	for len(ns) < maxEnum {
		add(1 + r.Int63n(total))
	}
	return ns, false
}

func runC12(c *fw.Ctx, cs fw.Case) {
	r := cs.Rand()
	ctx := context.Background()
	maxEnum := 120
	budget := 1200.0
	if !c.Quick() {
		maxEnum, budget = 2500, 6000
	}
	switch cs.Kind {
	case "alphabeta":
		for i := 0; i < cs.N; i++ {
			h, tag := c11Root(r, i+cs.Idx)
			cfg := searchCfgs[r.Intn(len(searchCfgs))]
			b0, ok := boardOf(h)
			if !ok {
				continue
			}
			if !quietTame(h, cfg) {
				cfg = searchCfgs[r.Intn(2)]
			}
			n0, n1 := branching(b0, cfg.limit)
			bud := budget
			if cfg.quiet {
				bud /= 6
			}
			depth := depthFor(n0, n1, bud, 5)
			if cfg.quiet && r.Intn(3) == 0 {
				depth = 0 // the root itself is the horizon: the whole search is one (interruptible) quiescence search
				c.Count("depth0_searches", 1)
			}
			if cfg.posDetermined && depth > 0 {
				depth = ttSafeDepth(h, depth) // with a table: no repetition draw inside the tree (C11's scope)
			}
			s, _, _ := cfg.mk()
			useTT := cfg.posDetermined
			variant := r.Intn(7)
			prewarm := useTT && r.Intn(2) == 0 && depth > 1
			what := fmt.Sprintf("config %s depth %d table-variant %d prewarm %v %s (%s)", cfg.name, depth, variant, prewarm, histDesc(h), tag)
			mkTable := func() *recTable {
				if !useTT {
					return &recTable{TranspositionTable: search.NoTranspositionTable{}}
				}
				inner, _ := newTable(ctx, variant)
				t := &recTable{TranspositionTable: inner}
				if prewarm {
					wb, _ := boardOf(h)
					s.Search(budgetCtx(), &search.Context{Alpha: eval.NegInfScore, Beta: eval.InfScore, TT: t}, wb, depth-1)
				}
				return t
			}
			// dry run: how many polls does the complete search make?
			dry := &countCtx{limit: pollBudget}
			db, _ := boardOf(h)
			_, _, _, err := s.Search(dry, &search.Context{Alpha: eval.NegInfScore, Beta: eval.InfScore, TT: mkTable()}, db, depth)
			if err != nil {
				c.Inconclusive("dry run did not complete: %v: %s", err, what)
				continue
			}
			total := dry.polls
			var want *eval.Score
			if useTT {
				nb, _ := boardOf(h)
				w, _, _, err := abValue(s, nb, depth)
				if err != nil {
					continue
				}
				want = &w
			}
			ns, all := haltPoints(r, total, maxEnum)
			c.Distinct(what)
			c.Count("searches", 1)
			if all {
				c.Count("searches_fully_enumerated", 1)
			}
			moveless := legalCount(b0) == 0
			for _, n := range ns {
				cc := &countCtx{limit: n}
				tt := mkTable()
				tt.cancelled = cc.cancelled
				b, _ := boardOf(h)
				tt.b = b
				before := adapt.TakeSnap(b)
				_, _, _, err := s.Search(cc, &search.Context{Alpha: eval.NegInfScore, Beta: eval.InfScore, TT: tt}, b, depth)
				tt.b = nil
				c.Eval(1)
				c.Count("halts", 1)
				if err != search.ErrHalted {
					c.Violate("halt:not-reported", "search cancelled at poll %d of %d returned err=%v instead of ErrHalted: %s", n, total, err, what)
				}
				handBack(c, "halt:handback", before, b, moveless, fmt.Sprintf("halt at poll %d of %d: %s", n, total, what))
				c.Count("post_cancel_writes", tt.postCancelWrites)
				if useTT {
					verifySamples(c, s, tt, fmt.Sprintf("written after the cancelling poll %d of %d: %s", n, total, what))
					tt.cancelled = nil
					// the follow-up search on the same table must be what it would have been without the halted one
					checkTTSearchWant(c, s, h, depth, tt, &search.Context{Alpha: eval.NegInfScore, Beta: eval.InfScore, TT: tt},
						fmt.Sprintf("follow-up after halt at poll %d of %d: %s", n, total, what), want)
					c.Count("followups", 1)
				}
			}
			if i == 0 && cs.Idx%8 == 0 {
				c.Sample(map[string]any{"config": cfg.name, "depth": depth, "start": h.Start.FEN(), "moves": h.MoveStrs(), "polls": total, "halt_points": len(ns), "all": all})
			}
		}
	case "minimax", "quiet":
		for i := 0; i < cs.N; i++ {
			root := searchCorpus(r, i+cs.Idx)
			h := root.h
			b0, ok := boardOf(h)
			if !ok {
				continue
			}
			n0, n1 := branching(b0, 0)
			what := fmt.Sprintf("%s %s (%s)", cs.Kind, histDesc(h), root.tag)
			run := func(cc *countCtx, b *board.Board) error {
				if cs.Kind == "minimax" {
					depth := depthFor(n0, n1, budget/2, 3)
					_, _, _, err := search.Minimax{Eval: search.Leaf{Eval: eval.Material{}}}.Search(cc, fullWindow(), b, depth)
					return err
				}
				q := search.Quiescence{Explore: refsearchCaptures, Eval: search.Leaf{Eval: eval.Material{}}}
				q.QuietSearch(cc, fullWindow(), b)
				if cc.cancelled() {
					return search.ErrHalted
				}
				return nil
			}
			dry := &countCtx{limit: 200000}
			db, _ := boardOf(h)
			if err := run(dry, db); err != nil {
				continue
			}
			ns, _ := haltPoints(r, dry.polls, maxEnum/2)
			c.Distinct(what)
			moveless := legalCount(b0) == 0
			for _, n := range ns {
				cc := &countCtx{limit: n}
				b, _ := boardOf(h)
				before := adapt.TakeSnap(b)
				err := run(cc, b)
				c.Eval(1)
				c.Count("halts_"+cs.Kind, 1)
				if err != search.ErrHalted {
					c.Violate("halt:not-reported", "%s cancelled at poll %d of %d returned err=%v: %s", cs.Kind, n, dry.polls, err, what)
				}
				handBack(c, "halt:handback", before, b, moveless, fmt.Sprintf("halt at poll %d of %d: %s", n, dry.polls, what))
			}
		}
	case "iterative":
		for i := 0; i < cs.N; i++ {
			rc := &recipes[[]int{0, 3, 0, 1, 2}[r.Intn(5)]]
			h, tag := c11Root(r, i+cs.Idx)
			asyncHalt(c, r, rc, h, tag)
			if i%2 == 0 {
				asyncEngineHalt(c, r, rc, h, tag)
			}
		}
	}
}

// asyncEngineHalt: the same through the engine's API with two callers: while one caller's Halt waits for the
// (parked) search to unwind, another caller's Analyze must not get a new search started on the same table,
// noise source and evaluator: "leaves nothing behind" includes the search itself.
func asyncEngineHalt(c *fw.Ctx, r *rand.Rand, rc *recipe, h gen.Hist, tag string) {
	ctx := context.Background()
	var gate *gateEval
	opts, _ := recipeOptions(r, rc)
	e := rc.newEngine(ctx, opts, 0, func(ev eval.Evaluator) eval.Evaluator { gate = newGate(ev); return gate })
	if e.Reset(ctx, h.Start.FEN()) != nil {
		return
	}
	for _, m := range h.Moves {
		if e.Move(ctx, m.String()) != nil {
			return
		}
	}
	if fp := h.Final(); len(fp.LegalMoves()) == 0 {
		return
	}
	what := fmt.Sprintf("engine %s options %v %s (%s)", rc.name, opts, histDesc(h), tag)
	blocked := gate.arm(1 + r.Int63n(40))
	out, err := e.Analyze(ctx, searchctl.Options{DepthLimit: lang.Some(uint(0))})
	if err != nil {
		return
	}
	go func() {
		for range out {
		}
	}()
	select {
	case <-blocked:
	case <-time.After(10 * time.Second):
		gate.open()
		e.Halt(ctx)
		return // ended or never evaluated that often: nothing to observe
	}
	haltDone := make(chan struct{})
	go func() { e.Halt(ctx); close(haltDone) }()
	time.Sleep(time.Duration(200+r.Intn(800)) * time.Microsecond)
	type res struct {
		out <-chan search.PV
		err error
	}
	second := make(chan res, 1)
	go func() {
		o, err := e.Analyze(ctx, searchctl.Options{DepthLimit: lang.Some(uint(1))})
		second <- res{o, err}
	}()
	c.Eval(1)
	c.Count("async_engine_halts", 1)
	early := false
	select {
	case x := <-second:
		// (refused with "already active" is fine: the second caller was served before the halting one)
		if x.err == nil {
			early = true
			c.Violate("halt:successor-overlaps", "Analyze from a second caller was accepted while the search being halted was still inside an evaluation: a new search runs beside it: %s", what)
		}
		second <- x
	case <-haltDone:
		early = true
		c.Violate("halt:handback-async", "Engine.Halt returned while the search was still inside an evaluation: %s", what)
	case <-time.After(15 * time.Millisecond):
	}
	gate.open()
	select {
	case <-haltDone:
	case <-time.After(60 * time.Second):
		if !early {
			c.Violate("halt:hang", "Engine.Halt did not return within 60 s after the evaluation gate opened: %s", what)
		}
		return
	}
	select {
	case x := <-second:
		if x.err == nil {
			for range x.out {
			}
		}
	case <-time.After(60 * time.Second):
		c.Violate("halt:hang", "Analyze after a completed Halt did not return within 60 s: %s", what)
	}
	e.Halt(ctx)
}

var refsearchCaptures = func(ctx context.Context, b *board.Board) (board.MovePriorityFn, board.MovePredicateFn) {
	return search.MVVLVA, func(m board.Move) bool { return m.IsCaptureOrEnPassant() }
}

// gateEval wraps an evaluator: it counts calls and can hold one chosen call until released.
// It can be re-armed for successive searches of one engine.
type gateEval struct {
	inner   eval.Evaluator
	calls   atomic.Int64
	blockAt atomic.Int64 // absolute call number to hold; 0 = none

	mu      sync.Mutex
	blocked chan struct{}
	release chan struct{}
	opened  bool
}

func newGate(inner eval.Evaluator) *gateEval {
	return &gateEval{inner: inner, blocked: make(chan struct{}), release: make(chan struct{})}
}

// arm makes the gate hold the k-th evaluation from now on (k >= 1). Returns the channel that is
// closed when the search goroutine is parked there.
func (g *gateEval) arm(k int64) <-chan struct{} {
	g.mu.Lock()
	defer g.mu.Unlock()
	g.blocked, g.release, g.opened = make(chan struct{}), make(chan struct{}), false
	g.blockAt.Store(g.calls.Load() + k)
	return g.blocked
}

func (g *gateEval) Evaluate(ctx context.Context, b *board.Board) eval.Pawns {
	n := g.calls.Add(1)
	if k := g.blockAt.Load(); k > 0 && n == k {
		g.mu.Lock()
		blocked, release := g.blocked, g.release
		g.mu.Unlock()
		close(blocked)
		<-release
	}
	return g.inner.Evaluate(ctx, b)
}

// open releases a parked evaluation (and disarms the gate). Idempotent.
func (g *gateEval) open() {
	g.mu.Lock()
	defer g.mu.Unlock()
	g.blockAt.Store(0)
	if !g.opened {
		g.opened = true
		close(g.release)
	}
}

// isBlocked reports whether the search goroutine is parked at the gate right now.
func (g *gateEval) isBlocked() bool {
	g.mu.Lock()
	defer g.mu.Unlock()
	if g.opened {
		return false
	}
	select {
	case <-g.blocked:
		return true
	default:
		return false
	}
}

// asyncHalt launches the real iterative-deepening harness, halts it asynchronously while the search
// goroutine is held inside an evaluation, and checks board, table and follow-up search.
func asyncHalt(c *fw.Ctx, r *rand.Rand, rc *recipe, h gen.Hist, tag string) {
	ctx := context.Background()
	var gate *gateEval
	root := rc.build(func(e eval.Evaluator) eval.Evaluator { gate = newGate(e); return gate })
	b, ok := boardOf(h)
	if !ok {
		return
	}
	n0, n1 := branching(b, 0)
	depth := depthFor(n0, n1, 1500, 4)
	what := fmt.Sprintf("engine recipe %s depth %d %s (%s)", rc.name, depth, histDesc(h), tag)
	// how many evaluations does a search to that depth take?
	probe := rc.build(func(e eval.Evaluator) eval.Evaluator { gate = newGate(e); return gate })
	pb, _ := boardOf(h)
	for d := 1; d <= depth; d++ {
		if _, _, _, err := probe.Search(budgetCtx(), fullWindow(), pb, d); err != nil {
			return
		}
	}
	evals := gate.calls.Load()
	if evals < 2 {
		return
	}
	root = rc.build(func(e eval.Evaluator) eval.Evaluator { gate = newGate(e); return gate })
	gate.blockAt.Store(1 + r.Int63n(evals))
	useTT := rc.positionDetermined
	var tt search.TranspositionTable = search.NoTranspositionTable{}
	var rec *recTable
	if useTT {
		inner, _ := newTable(ctx, r.Intn(7))
		rec = &recTable{TranspositionTable: inner}
		tt = rec
	}
	before := adapt.TakeSnap(b)
	it := &searchctl.Iterative{Root: root}
	handle, out := it.Launch(ctx, b, tt, eval.Random{}, searchctl.Options{})
	var pvs []search.PV
	drained := make(chan struct{})
	go func() {
		for pv := range out {
			pvs = append(pvs, pv)
		}
		close(drained)
	}()
	select {
	case <-gate.blocked:
	case <-drained: // search ended by itself (forced mate) before reaching the gate
	case <-time.After(60 * time.Second):
		gate.open()
		c.Inconclusive("gate not reached within the watchdog: %s", what)
		handle.Halt()
		return
	}
	halted := make(chan search.PV, 1)
	go func() { halted <- handle.Halt() }()
	time.Sleep(time.Duration(r.Intn(300)) * time.Microsecond)
	if r.Intn(2) == 0 {
		// a second caller halts while the first is still waiting for the (parked) search to unwind: it must
		// wait too, for the board is not handed back before the search goroutine has ended
		second := make(chan search.PV, 1)
		go func() { second <- handle.Halt() }()
		c.Count("async_overlapping_halts", 1)
		select {
		case <-second:
			if d := adapt.TakeSnap(b).Diff(before); d != "" {
				c.Violate("halt:handback-async", "a second, overlapping Halt returned while the halted search was still inside an evaluation, the board not yet handed back (%s): %s", d, what)
			}
		case <-time.After(15 * time.Millisecond):
		}
		defer func() { go func() { <-second }() }()
	}
	gate.open()
	var final search.PV
	select {
	case final = <-halted:
	case <-time.After(60 * time.Second):
		c.Violate("halt:hang", "Halt did not return within 60 s after the evaluation gate opened: %s", what)
		return
	}
	<-drained
	c.Eval(1)
	c.Count("async_halts", 1)
	c.Distinct(what + fmt.Sprint(gate.blockAt.Load()))
	handBack(c, "halt:handback-async", before, b, false, what)
	if final.Depth < 1 || (len(final.Moves) == 0 && legalCount(b) > 0) {
		c.Violate("halt:before-depth1", "Halt returned depth %d with %d moves: %s", final.Depth, len(final.Moves), what)
	}
	// follow-up on the same table: a clean depth-limited analysis must equal the table-less direct search
	if useTT {
		rec.every = 0
		nb, _ := boardOf(h)
		want, _, _, err := abValue(rc.build(idWrap), nb, depth)
		if err != nil {
			return
		}
		fb, _ := boardOf(h)
		_, out2 := (&searchctl.Iterative{Root: rc.build(idWrap)}).Launch(ctx, fb, tt, eval.Random{}, searchctl.Options{DepthLimit: lang.Some(uint(depth))})
		var last search.PV
		for pv := range out2 {
			last = pv
		}
		c.Count("async_followups", 1)
		md, isMate := last.Score.MateDistance()
		if last.Depth == depth || (isMate && int(md) <= last.Depth) {
			if last.Depth == depth && !sameScore(last.Score, want) {
				c.Violate("halt:followup", "analysis after an asynchronous halt on the same table ends with %v at depth %d, a clean search gives %v: %s", last.Score, depth, want, what)
			}
		} else {
			c.Violate("halt:followup-depth", "follow-up analysis ended at depth %d, limit %d: %s", last.Depth, depth, what)
		}
	}
}

func init() {
	fw.Register(&fw.Monitor{
		ID:          "C12",
		Level:       "fault_enumeration",
		RaceKinds:   map[string]bool{"iterative": true},
		Technique:   "deterministic fault injection: a counting context cancels the search at its n-th cancellation poll, for every n (or a dense sample) of each search; recording table + follow-up search + board snapshot as oracles; plus asynchronous Halt of the real iterative-deepening harness under the race detector",
		Rule:        "fault = cancellation becoming visible at poll n of a search that makes P polls in total (dry run): all n for P <= 120 (quick) / 2500 (thorough), else first/last and seeded n; per fault: ErrHalted reported, board snapshot equal, every table write made after the cancelling poll re-derived by a table-less search, follow-up search on the same table compared (score, PV first move) with the table-less result; configurations as C03 (tables only for position-determined ones, cold and pre-warmed); Minimax and direct quiescence: report + board; asynchronous: Iterative.Launch halted via Handle.Halt while the search goroutine is parked inside its k-th evaluation; distinct = distinct (configuration, history) searches",
		Assumptions: []string{"cancellation is observed only through ctx.Done() polls (true for all searches in the tree: contextx.IsCancelled)", "follow-up equality relies on table transparency (C11) within C11's scope"},
		Setup:       validateOracle,
		Timeout:     minutes(15, 120),
		Cases: func(tier string, seed int64) []fw.Case {
			l := mkCases(nil, "alphabeta", 128, seed, pick(tier, 1, 4))
			l = mkCases(l, "minimax", 16, seed, pick(tier, 3, 60))
			l = mkCases(l, "quiet", 16, seed, pick(tier, 12, 200))
			l = mkCases(l, "iterative", 16, seed, pick(tier, 10, 200))
			return l
		},
		Floors: func(string) map[string]int64 {
			return map[string]int64{"halts": 5000, "followups": 2000, "searches_fully_enumerated": 10, "halts_minimax": 500, "halts_quiet": 200, "async_halts": 100, "async_followups": 40, "depth0_searches": 3, "async_overlapping_halts": 30, "async_engine_halts": 20}
		},
		Run: runC12,
	})
}
