package mon

import (
	"context"
	"fmt"
	"math/rand"
	"runtime"
	"strings"
	"sync"
	"sync/atomic"
	"time"
	"unicode/utf8"

	"github.com/herohde/morlock/pkg/board"
	"github.com/herohde/morlock/pkg/board/fen"
	"github.com/herohde/morlock/pkg/engine"
	"github.com/herohde/morlock/pkg/search/searchctl"
	"github.com/seekerror/stdlib/pkg/lang"

	"verif/adapt"
	"verif/fw"
	"verif/gen"
	"verif/ref"
)

// C14 — FEN codec round trips; the engine reports the standard FEN of its game.
// C19 — textual input is total.

func randClock(r *rand.Rand) int {
	switch r.Intn(5) {
	case 0:
		return 0
	case 1:
		return r.Intn(100)
	case 2:
		return 99 + r.Intn(3)
	case 3:
		return r.Intn(1000000)
	default:
		return r.Intn(20)
	}
}

func fenRoundTrip(c *fw.Ctx, p ref.Pos) {
	pos, err := adapt.Position(p)
	if err != nil {
		c.Violate("fen:newposition", "NewPosition failed for %s: %v", p.FEN(), err)
		return
	}
	turn := adapt.BColor(p.White)
	want := p.FEN()
	c.Eval(1)
	c.Count("roundtrips", 1)
	c.Distinct(want)
	got := fen.Encode(pos, turn, p.Half, p.Full)
	if got != want {
		c.Violate("fen:encode", "Encode gives %q, the standard FEN is %q", got, want)
	}
	pos2, turn2, np2, fm2, err := fen.Decode(got)
	if err != nil || pos2 == nil {
		c.Violate("fen:decode-own", "Decode rejects the encoder's own output %q: %v", got, err)
		return
	}
	if *pos2 != *pos || turn2 != turn || np2 != p.Half || fm2 != p.Full {
		c.Violate("fen:roundtrip", "Decode(Encode(x)) != x for %q: got %q", want, fen.Encode(pos2, turn2, np2, fm2))
	}
	// canonical string first
	pos3, turn3, np3, fm3, err := fen.Decode(want)
	if err != nil || pos3 == nil {
		c.Violate("fen:decode-canonical", "Decode rejects canonical FEN %q: %v", want, err)
		return
	}
	if back := fen.Encode(pos3, turn3, np3, fm3); back != want {
		c.Violate("fen:canonical", "Encode(Decode(%q)) = %q", want, back)
	}
	if *pos3 != *pos {
		c.Violate("fen:decode-differs", "Decode(%q) differs from the position built from placements", want)
	}
	if p.EP >= 0 {
		c.Count("with_ep", 1)
	}
	if p.Cast != 0 && p.Cast != 15 {
		c.Count("partial_rights", 1)
	}
	if !p.White {
		c.Count("black_to_move", 1)
	}
}

// transposition finds a quiet piece move, a quiet reply and a pawn move of the first side that can also be played
// in the order pawn move, reply, piece move, reaching the same position (with a different half-move clock).
func transposition(r *rand.Rand, p ref.Pos) ([]ref.Move, bool) {
	quiet := func(q ref.Pos, pawn bool) []ref.Move {
		var l []ref.Move
		ms := q.LegalMoves()
		for _, i := range r.Perm(len(ms)) {
			m := ms[i]
			if m.Capture == 0 && m.Promo == 0 && (m.Kind == ref.KNormal || m.Kind == ref.KPush) && (m.Piece == ref.Pawn) == pawn && m.Piece != ref.King && m.Piece != ref.Rook {
				l = append(l, m)
			}
		}
		return l
	}
	find := func(q ref.Pos, want ref.Move) (ref.Move, bool) {
		return q.FindMove(want.From, want.To, want.Promo)
	}
	for ai, a := range quiet(p, false) {
		if ai >= 4 {
			break
		}
		pa := p.Apply(a)
		for bi, b := range quiet(pa, false) {
			if bi >= 3 {
				break
			}
			pab := pa.Apply(b)
			for _, cmove := range quiet(pab, true) {
				end := pab.Apply(cmove)
				// the other order
				c1, ok := find(p, cmove)
				if !ok || c1.Capture != 0 || c1.Kind != ref.KPush {
					continue
				}
				q1 := p.Apply(c1)
				b1, ok := find(q1, b)
				if !ok || b1.Capture != 0 {
					continue
				}
				q2 := q1.Apply(b1)
				a1, ok := find(q2, a)
				if !ok || a1.Capture != 0 {
					continue
				}
				if q3 := q2.Apply(a1); q3.Key() == end.Key() {
					return []ref.Move{a, b, cmove}, true
				}
			}
		}
	}
	return nil, false
}

// engineFENReaders: one goroutine plays a game fixed in advance (moves and take-backs) on an engine while two
// others keep asking the engine for its FEN. The engine serialises its calls itself, so every FEN read must be
// the standard FEN of one of the states the game goes through (the set is known before the readers start), and
// a reader never sees the game go back to a state it has passed unless the script does. Run under the race build.
func engineFENReaders(c *fw.Ctx, r *rand.Rand, start ref.Pos, bias gen.Bias, steps int) {
	ctx := context.Background()
	e := recipes[0].newEngine(ctx, engine.Options{Depth: 1, Hash: 0}, 0, nil)
	if err := e.Reset(ctx, start.FEN()); err != nil {
		return
	}
	type op struct {
		back bool
		mv   string
	}
	var ops []op
	g := ref.NewGame(start)
	allowed := map[string][]int{start.FEN(): {0}} // FEN -> the steps after which it is the game's FEN
	for i := 0; i < steps; i++ {
		if r.Intn(5) == 0 && g.Plies() > 0 {
			g.Pop()
			ops = append(ops, op{back: true})
		} else {
			ms := g.Cur.LegalMoves()
			if len(ms) == 0 {
				break
			}
			cur := g.Cur
			m := gen.Pick(r, &cur, ms, bias, nil)
			g.Push(m)
			ops = append(ops, op{mv: m.String()})
		}
		allowed[g.Cur.FEN()] = append(allowed[g.Cur.FEN()], len(ops))
	}
	final := g.Cur.FEN()
	var done atomic.Int64 // number of operations completed by the player
	var started atomic.Int64
	stop := make(chan struct{})
	var wg sync.WaitGroup
	type bad struct{ fen, why string }
	bads := make(chan bad, 8)
	var reads atomic.Int64
	seen := make([]map[string]bool, 2)
	for w := 0; w < 2; w++ {
		seen[w] = map[string]bool{}
		wg.Add(1)
		go func(w int) {
			defer wg.Done()
			for {
				select {
				case <-stop:
					return
				default:
				}
				lo := done.Load() // operations certainly finished before the call
				f := e.Position()
				hi := started.Load() // operations possibly begun before it returned
				reads.Add(1)
				seen[w][f] = true
				at, ok := allowed[f]
				if !ok {
					select {
					case bads <- bad{f, "is not the FEN of any state of the game"}:
					default:
					}
					continue
				}
				inWindow := false
				for _, k := range at {
					if int64(k) >= lo && int64(k) <= hi {
						inWindow = true
					}
				}
				if !inWindow {
					select {
					case bads <- bad{f, fmt.Sprintf("is the game's FEN only after steps %v, but between %d and %d operations had been carried out", at, lo, hi)}:
					default:
					}
				}
			}
		}(w)
	}
	okPlay := true
	for _, o := range ops {
		started.Add(1)
		var err error
		if o.back {
			err = e.TakeBack(ctx)
		} else {
			err = e.Move(ctx, o.mv)
		}
		done.Add(1)
		if err != nil {
			okPlay = false
			break
		}
		if r.Intn(4) == 0 {
			runtime.Gosched()
		}
	}
	close(stop)
	wg.Wait()
	close(bads)
	c.Eval(int(reads.Load()))
	c.Count("reader_sessions", 1)
	c.Count("reader_fens_read", int(reads.Load()))
	c.Count("reader_distinct_states_read", len(seen[0])+len(seen[1]))
	for b := range bads {
		c.Violate("enginefen:concurrent-read", "while another goroutine plays the game, Position() returned %q, which %s (start %q, %d operations)", b.fen, b.why, start.FEN(), len(ops))
	}
	if okPlay {
		if got := e.Position(); got != final {
			c.Violate("enginefen:position", "after the concurrent session the engine reports %q, the game's FEN is %q", got, final)
		}
	}
}

func engineFENSession(c *fw.Ctx, r *rand.Rand, start ref.Pos, bias gen.Bias, steps int) {
	ctx := context.Background()
	e := recipes[0].newEngine(ctx, engine.Options{Depth: 1, Hash: 0}, 0, nil)
	if err := e.Reset(ctx, start.FEN()); err != nil {
		c.Violate("enginefen:reset", "Reset(%q) failed: %v", start.FEN(), err)
		return
	}
	g := ref.NewGame(start)
	check := func(op string) bool {
		c.Eval(1)
		c.Count("engine_fen_checks", 1)
		if got, want := e.Position(), g.Cur.FEN(); got != want {
			h := gen.Hist{Start: g.Start, Moves: g.Moves}
			c.Violate("enginefen:position", "after %s engine reports %q, the standard FEN of the game is %q (start %q moves %v)", op, got, want, start.FEN(), h.MoveStrs())
			return false
		}
		return true
	}
	check("reset")
	for i := 0; i < steps; i++ {
		if r.Intn(8) == 0 && g.Plies() > 0 {
			if err := e.TakeBack(ctx); err != nil {
				c.Violate("enginefen:takeback", "TakeBack failed with %d moves played: %v", g.Plies(), err)
				return
			}
			g.Pop()
			c.Count("engine_takebacks", 1)
			if !check("takeback") {
				return
			}
			continue
		}
		ms := g.Cur.LegalMoves()
		if len(ms) == 0 {
			break
		}
		if r.Intn(12) == 0 {
			// the same position on the same ply by another move order, with the last pawn move at another place
			// (so with another clock), reached by taking back without asking for the FEN in between
			if line, ok := transposition(r, g.Cur); ok {
				play := func(ms []ref.Move, ask bool) bool {
					for _, m := range ms {
						if err := e.Move(ctx, m.String()); err != nil {
							c.Violate("enginefen:move", "legal move %v rejected in %q: %v", m, g.Cur.FEN(), err)
							return false
						}
						g.Push(m)
						if ask && !check("move "+m.String()) {
							return false
						}
					}
					return true
				}
				if !play(line, true) {
					return
				}
				for range line {
					if e.TakeBack(ctx) != nil {
						return
					}
					g.Pop()
				}
				if !play([]ref.Move{line[2], line[1], line[0]}, false) {
					return
				}
				c.Count("engine_fen_transpositions", 1)
				if !check(fmt.Sprintf("%v %v %v, three take-backs, then %v %v %v", line[0], line[1], line[2], line[2], line[1], line[0])) {
					return
				}
				continue
			}
		}
		if r.Intn(40) == 0 {
			// the reported FEN is the game's also while the engine is thinking about it
			out, err := e.Analyze(ctx, searchctl.Options{DepthLimit: lang.Some(uint(0))})
			if err == nil {
				go func() {
					for range out {
					}
				}()
				ok := true
				for k := 0; k < 25 && ok; k++ {
					time.Sleep(time.Duration(r.Intn(200)) * time.Microsecond)
					ok = check("Analyze (still running)")
				}
				e.Halt(ctx)
				c.Count("engine_fen_during_analysis", 1)
				if !ok || !check("Halt") {
					return
				}
			}
		}
		var prev *ref.Move
		if n := len(g.Moves); n >= 2 {
			prev = &g.Moves[n-2]
		}
		m := gen.Pick(r, &g.Cur, ms, bias, prev)
		if err := e.Move(ctx, m.String()); err != nil {
			c.Violate("enginefen:move", "legal move %v rejected in %q: %v", m, g.Cur.FEN(), err)
			return
		}
		g.Push(m)
		switch m.Kind {
		case ref.KCastleK, ref.KCastleQ:
			c.Count("engine_castles", 1)
		case ref.KEnPassant:
			c.Count("engine_ep", 1)
		case ref.KJump:
			c.Count("engine_jumps", 1)
		}
		if !check("move " + m.String()) {
			return
		}
	}
	h := gen.Hist{Start: g.Start, Moves: g.Moves}
	c.Distinct(start.FEN() + strings.Join(h.MoveStrs(), " "))
}

func init() {
	fw.Register(&fw.Monitor{
		ID:          "C14",
		Level:       "exploration",
		Technique:   "runtime differential oracle: FEN codec vs independent FEN printer on generated positions; engine-reported FEN vs reference game model over generated move / take-back sessions",
		Rule:        "round trips: generated positions (playouts, synthetic with partial rights and e.p., tactical shapes) x random clocks incl. 0, 99-101, up to 10^6, both colours: Encode == oracle FEN, Decode(Encode(x)) == x, Encode(Decode(canonical)) == canonical; engine sessions: Reset(FEN with clocks) then random legal moves and take-backs, Position() compared with the reference game's FEN after every operation and repeatedly while an unlimited analysis is running; distinct = distinct FEN strings + distinct sessions",
		Assumptions: []string{"reference FEN printer and game model (package ref)"},
		Setup:       validateOracle,
		Timeout:     minutes(10, 60),
		RaceKinds:   map[string]bool{"readers": true},
		Cases: func(tier string, seed int64) []fw.Case {
			l := mkCases(nil, "roundtrip", 32, seed, pick(tier, 2000, 160000))
			l = mkCases(l, "engine", 32, seed, pick(tier, 50, 2400))
			l = mkCases(l, "readers", 8, seed, pick(tier, 6, 300))
			return l
		},
		Floors: func(string) map[string]int64 {
			return map[string]int64{"reader_sessions": 20, "reader_fens_read": 2000, "reader_distinct_states_read": 100, "roundtrips": 5000, "with_ep": 100, "partial_rights": 300, "black_to_move": 1000, "engine_fen_checks": 5000, "engine_castles": 10, "engine_takebacks": 100, "engine_ep": 1, "engine_fen_during_analysis": 100, "engine_fen_transpositions": 50}
		},
		Run: func(c *fw.Ctx, cs fw.Case) {
			r := cs.Rand()
			switch cs.Kind {
			case "roundtrip":
				for i := 0; i < cs.N; i++ {
					var p ref.Pos
					switch i % 4 {
					case 0:
						p = gen.SynthOK(r)
					case 1:
						p = gen.TacticOK(r, r.Intn(gen.NumTactics))
					default:
						p = randomHist(r, 100).Final()
					}
					p.Half, p.Full = randClock(r), 1+randClock(r)
					fenRoundTrip(c, p)
					if i == 0 && cs.Idx%16 == 0 {
						c.Sample(map[string]any{"kind": "roundtrip", "fen": p.FEN()})
					}
				}
			case "readers":
				for i := 0; i < cs.N; i++ {
					start, bias, plies := gameStart(r, i)
					engineFENReaders(c, r, start, bias, min(plies, 150))
				}
			case "engine":
				for i := 0; i < cs.N; i++ {
					start, bias, plies := gameStart(r, i)
					if i%2 == 0 {
						bias = gen.Tactical
					}
					if plies > 120 {
						plies = 120
					}
					engineFENSession(c, r, start, bias, plies)
					if i == 0 && cs.Idx%16 == 0 {
						c.Sample(map[string]any{"kind": "engine-session", "start": start.FEN(), "steps": plies})
					}
				}
			}
		},
	})

	fw.Register(&fw.Monitor{
		ID:          "C19",
		Level:       "exploration",
		Technique:   "runtime robustness monitor: generated and mutated strings fed to the decoders under a panic trap (and a per-case log for process-fatal errors), acceptance compared with the rules oracle",
		Rule:        "FEN strings: valid FENs mutated by byte/rune insert/delete/replace/duplicate, field swaps, digit runs, non-ASCII digits and letters, over-long boards, huge numbers, NULs, 64 KiB inputs, plus all strings of a small hostile alphabet for squares and a sample for moves; move strings: for generated positions every legal move (all case variants), every pseudo-legal illegal one and random syntactically valid / near-valid strings through Engine.Move, acceptance compared with the oracle's legal set; distinct = distinct input strings",
		Assumptions: []string{"a move string denotes a move in coordinate notation with the case-insensitivity the parsers document (files A-H, promotion letters in either case)"},
		Setup:       validateOracle,
		Timeout:     minutes(10, 60),
		Cases: func(tier string, seed int64) []fw.Case {
			l := mkCases(nil, "fenfuzz", 32, seed, pick(tier, 15000, 1500000))
			l = append(l, fw.Case{Idx: len(l), Kind: "crafted"})
			l = append(l, fw.Case{Idx: len(l), Kind: "squares"})
			l = mkCases(l, "moves", 32, seed, pick(tier, 40, 2400))
			l = mkCases(l, "ucitext", 8, seed, pick(tier, 6, 600))
			return l
		},
		Floors: func(string) map[string]int64 {
			return map[string]int64{"fen_inputs": 50000, "fen_accepted": 2000, "fen_rejected": 10000, "square_inputs": 1000, "move_inputs": 50000, "move_accepted": 5000, "move_rejected": 20000, "move_rejected_pseudolegal": 100, "uci_text_lines": 100, "game_move_strings": 1000, "game_moves_after_repetition": 100}
		},
		Run: runC19,
	})
}

// ---- C19 ----

func tryDecode(c *fw.Ctx, s string) {
	c.Eval(1)
	c.Count("fen_inputs", 1)
	c.Distinct(s)
	defer func() {
		if r := recover(); r != nil {
			c.Violate("text:fen-panic", "fen.Decode(%q) panicked: %v", clip(s), r)
		}
	}()
	pos, turn, np, fm, err := fen.Decode(s)
	if err != nil {
		c.Count("fen_rejected", 1)
		if pos != nil {
			c.Violate("text:fen-error-with-value", "Decode(%q) returned an error and a position", clip(s))
		}
		return
	}
	c.Count("fen_accepted", 1)
	if pos == nil {
		c.Violate("text:fen-nil", "fen.Decode(%q) accepted the input but returned no position", clip(s))
		return
	}
	if np < 0 || fm < 0 || turn > board.Black {
		c.Violate("text:fen-illformed", "Decode(%q) returned clocks %d %d turn %v", clip(s), np, fm, turn)
	}
	enc := fen.Encode(pos, turn, np, fm)
	pos2, turn2, np2, fm2, err := fen.Decode(enc)
	if err != nil || pos2 == nil {
		c.Violate("text:fen-reencode", "accepted %q re-encodes to %q which is rejected: %v", clip(s), enc, err)
		return
	}
	if *pos2 != *pos || turn2 != turn || np2 != np || fm2 != fm {
		c.Violate("text:fen-unstable", "accepted %q re-encodes to %q which decodes to a different position", clip(s), enc)
	}
	// well-formedness of the value: the views agree
	var all board.Bitboard
	for sq := board.ZeroSquare; sq < board.NumSquares; sq++ {
		if _, _, ok := pos.Square(sq); ok {
			all |= board.BitMask(sq)
		}
	}
	if all != pos.All() || pos.Rotated() != board.NewRotatedBitboard(all) || pos.Color(board.White)|pos.Color(board.Black) != all {
		c.Violate("text:fen-illformed", "accepted %q yields a position whose views disagree", clip(s))
	}
}

func clip(s string) string {
	if len(s) > 200 {
		return s[:200] + fmt.Sprintf("...(%d bytes)", len(s))
	}
	return s
}

var hostileRunes = []rune{'0', '1', '8', '9', '/', ' ', 'K', 'k', 'p', 'P', 'x', '-', 'w', 'b', 'q', 'a', 'h', 'e', '3', '6',
	0, '\t', '\n', 0x7f, 0x80, 0xa0, 'é', 'ж', '٣', '９', 'Ａ', 'ｋ', '日', 0x1D7D8, utf8.RuneError, '+', '.', 'Ⅷ', '²', '८'}

func mutate(r *rand.Rand, s string) string {
	rs := []rune(s)
	n := 1 + r.Intn(3)
	for i := 0; i < n; i++ {
		if len(rs) == 0 {
			rs = append(rs, hostileRunes[r.Intn(len(hostileRunes))])
			continue
		}
		pos := r.Intn(len(rs))
		switch r.Intn(9) {
		case 0: // delete
			rs = append(rs[:pos], rs[pos+1:]...)
		case 1: // insert hostile
			rs = append(rs[:pos], append([]rune{hostileRunes[r.Intn(len(hostileRunes))]}, rs[pos:]...)...)
		case 2: // replace hostile
			rs[pos] = hostileRunes[r.Intn(len(hostileRunes))]
		case 3: // duplicate a run
			end := pos + 1 + r.Intn(8)
			if end > len(rs) {
				end = len(rs)
			}
			rs = append(rs[:end], append(append([]rune{}, rs[pos:end]...), rs[end:]...)...)
		case 4: // swap two fields
			f := strings.Split(string(rs), " ")
			if len(f) > 1 {
				a, b := r.Intn(len(f)), r.Intn(len(f))
				f[a], f[b] = f[b], f[a]
				rs = []rune(strings.Join(f, " "))
			}
		case 5: // digit tweak
			for j := range rs {
				if rs[j] >= '0' && rs[j] <= '9' && r.Intn(3) == 0 {
					rs[j] = rune('0' + r.Intn(10))
				}
			}
		case 6: // truncate
			rs = rs[:pos]
		case 7: // replace a field by a number-ish thing
			f := strings.Split(string(rs), " ")
			if len(f) > 0 {
				f[r.Intn(len(f))] = []string{"-1", "99999999999999999999", "0x10", "+5", "1e3", "", "-", "--", "kqKQ", "KK", "e9", "i3", "e3e3", "٣", "-0", "007", "9223372036854775808", "18446744073709551615", "9223372036854775807", "4294967296"}[r.Intn(20)]
				rs = []rune(strings.Join(f, " "))
			}
		case 8: // case flip
			if rs[pos] >= 'a' && rs[pos] <= 'z' {
				rs[pos] -= 32
			} else if rs[pos] >= 'A' && rs[pos] <= 'Z' {
				rs[pos] += 32
			}
		}
	}
	return string(rs)
}

func craftedFENs() []string {
	tail := " w - - 0 1"
	l := []string{
		"", " ", "      ", "w - - 0 1", "8/8/8/8/8/8/8/8 w - - 0 1", "8/8/8/8/8/8/8/8" + tail + " extra",
		"99999999K" + strings.Repeat("9", 27) + "4 w - - 0 1",
		strings.Repeat("9", 28) + "4" + tail,
		strings.Repeat("8", 32) + tail, strings.Repeat("8", 40) + tail, strings.Repeat("8/", 72) + tail,
		strings.Repeat("K", 64) + tail, strings.Repeat("K", 65) + tail, strings.Repeat("K", 320) + tail, strings.Repeat("K", 576) + tail,
		strings.Repeat("k", 256) + strings.Repeat("K", 64) + tail,
		"K" + strings.Repeat("9", 28) + "3K" + tail, // wrap-around duplicate
		"rnbqkbnr/pppppppp/8/8/8/8/PPPPPPPP/RNBQKBNR0 w KQkq - 0 1",
		"rnbqkbnr/pppppppp/98/87/PPPPPPPP/RNBQKBNR w KQkq - 0 1",
		"rnbqkbnr/pppppppp/８/8/8/8/PPPPPPPP/RNBQKBNR w KQkq - 0 1",
		"rnbqkbnr/pppppppp/٨/8/8/8/PPPPPPPP/RNBQKBNR w KQkq - 0 1",
		"rnbqkbnr/pppppppp/8/8/8/8/PPPPPPPP/RNBQKBNR w KQkq é 0 1",
		"rnbqkbnr/pppppppp/8/8/8/8/PPPPPPPP/RNBQKBNR w KQkq ж 0 1",
		"rnbqkbnr/pppppppp/8/8/8/8/PPPPPPPP/RNBQKBNR w KQkq   0 1",
		"rnbqkbnr/pppppppp/8/8/8/8/PPPPPPPP/RNBQKBNR w KQkq 日 0 1",
		"rnbqkbnr/pppppppp/8/8/8/8/PPPPPPPP/RNBQKBNR w KQkq \xff\xfe 0 1",
		"rnbqkbnr/pppppppp/8/8/8/8/PPPPPPPP/RNBQKBNR w KQkq e3 -1 1",
		"rnbqkbnr/pppppppp/8/8/8/8/PPPPPPPP/RNBQKBNR w KQkq e3 0 -1",
		"rnbqkbnr/pppppppp/8/8/8/8/PPPPPPPP/RNBQKBNR w KQkq e3 99999999999999999999 1",
		"rnbqkbnr/pppppppp/8/8/8/8/PPPPPPPP/RNBQKBNR w KQkq e3 0 99999999999999999999",
		"rnbqkbnr/pppppppp/8/8/8/8/PPPPPPPP/RNBQKBNR W kqKQ E3 +0 +1",
		"rnbqkbnr/pppppppp/8/8/8/8/PPPPPPPP/RNBQKBNR w  - 0 1",
		"rnbqkbnr/pppppppp/8/8/8/8/PPPPPPPP/RNBQKBNR\x00 w KQkq - 0 1",
		"\x00\x00\x00\x00\x00\x00 \x00 \x00 \x00 \x00 \x00",
		strings.Repeat("/", 65536) + tail,
		strings.Repeat("1", 64) + tail, strings.Repeat("1", 65) + tail, strings.Repeat("0", 70000) + tail,
		strings.Repeat("p", 65536) + tail,
		"8/8/8/8/8/8/8/7" + strings.Repeat("0", 100) + "1" + tail,
	}
	// counters at the edges of the integer types
	for _, n := range []string{"2147483647", "2147483648", "4294967295", "4294967296", "9223372036854775807", "9223372036854775808", "9223372036854775809",
		"18446744073709551615", "18446744073709551616", "12345678901234567890", "-9223372036854775808", "-9223372036854775809", "00000000000000000000001", "1_000", "1e3", "0x7fffffffffffffff"} {
		l = append(l, "rnbqkbnr/pppppppp/8/8/8/8/PPPPPPPP/RNBQKBNR w KQkq - "+n+" 1", "rnbqkbnr/pppppppp/8/8/8/8/PPPPPPPP/RNBQKBNR w KQkq - 0 "+n)
	}
	// sums congruent to 64 modulo 256
	l = append(l, strings.Repeat("8", 40)+tail, strings.Repeat("8", 8+32)+tail)
	l = append(l, strings.Repeat("8", 8)+strings.Repeat("8", 32)+tail)
	return l
}

func runC19(c *fw.Ctx, cs fw.Case) {
	r := cs.Rand()
	switch cs.Kind {
	case "fenfuzz":
		for i := 0; i < cs.N; i++ {
			var base string
			if i%50 == 0 {
				fp := randomHist(r, 60).Final()
				base = fp.FEN()
			} else {
				base = gen.StartFENs[r.Intn(len(gen.StartFENs))]
			}
			s := mutate(r, base)
			tryDecode(c, s)
			if i == 1 && cs.Idx%16 == 0 {
				c.Sample(map[string]any{"kind": "fenfuzz", "input": clip(s)})
			}
		}
	case "crafted":
		for _, s := range craftedFENs() {
			tryDecode(c, s)
			c.Count("crafted", 1)
		}
		c.Sample(map[string]any{"kind": "crafted", "input": craftedFENs()[6]})
	case "squares":
		alpha := []rune{'a', 'h', 'i', 'A', 'H', '1', '8', '9', '0', ' ', 'é', 'Ａ', 0, '٣', 'ж', 0xa0, '日', utf8.RuneError}
		var gen func(prefix []rune, n int)
		gen = func(prefix []rune, n int) {
			if n == 0 {
				trySquare(c, string(prefix))
				return
			}
			for _, a := range alpha {
				gen(append(prefix, a), n-1)
			}
		}
		for n := 0; n <= 3; n++ {
			gen(nil, n)
		}
		for _, s := range []string{"\xff\xfe", "\xc3", "a\xc3", "\xc3\xa9", "e\xcc\x81", "a1\x00"} {
			trySquare(c, s)
		}
		// move strings of length 3..6 over the alphabet (sampled)
		for i := 0; i < 40000; i++ {
			n := 3 + r.Intn(4)
			rs := make([]rune, n)
			for j := range rs {
				rs[j] = alpha[r.Intn(len(alpha))]
			}
			tryMoveParse(c, string(rs))
		}
		// promotion letters shifted beyond one byte (their low byte still spells the letter)
		for _, l := range "qrbnQRBNkpKP" {
			for _, off := range []rune{0x100, 0x200, 0x300, 0x2100, 0xFF00, 0x10000, 0x20000} {
				tryMoveParse(c, "e7e8"+string(l+off))
				tryMoveParse(c, string('e'+off)+"7e8q")
			}
		}
		for _, s := range []string{"", "e2e4", "E2E4", "e7e8q", "e7e8Q", "e7e8k", "e7e8p", "e7e8 ", "e2e4\x00", "\xc3\xa92e4", "é2e4", "e2é4", "e2e4é", "ééééé", "\xff\xff\xff\xff", "\xc3\xc3\xc3\xc3\xc3"} {
			tryMoveParse(c, s)
		}
	case "ucitext":
		// text reaching the game through the UCI driver: near-identical position lines (case of piece letters,
		// digits appended to a clock) must still set up exactly the game they spell
		for i := 0; i < cs.N; i++ {
			s := newUCISession(&recipes[0], engine.Options{Depth: 1, Hash: 0}, 0, false, 1, false)
			base := randomHist(r, 40).Final()
			base.Half, base.Full = r.Intn(9), 1+r.Intn(9)
			lines := []ref.Pos{base}
			if flipped, ok := flipSomeColours(r, base); ok {
				lines = append(lines, flipped)
			}
			ext := base
			ext.Full = base.Full*10 + r.Intn(10)
			lines = append(lines, ext, base)
			for li, p := range lines {
				s.send(positionCmd(p, nil, false))
				if _, ok := s.sync(); !ok {
					c.Violate("text:uci-no-readyok", "isready unanswered after a position line: %s", s.transcript(10))
					break
				}
				c.Eval(1)
				c.Count("uci_text_lines", 1)
				if got := s.e.Position(); got != p.FEN() {
					c.Violate("text:uci-position", "after %q the game is %q: %s", positionCmd(p, nil, false), got, s.transcript(10))
					break
				}
				// a legal move of this position must be accepted as an extension, and be the move it spells
				if ms := p.LegalMoves(); len(ms) > 0 && (li == len(lines)-1 || r.Intn(4) == 0) {
					m := ms[r.Intn(len(ms))]
					s.send(positionCmd(p, []ref.Move{m}, false))
					s.sync()
					np := p.Apply(m)
					if got := s.e.Position(); got != np.FEN() {
						c.Violate("text:uci-position", "after %q the game is %q, expected %q: %s", positionCmd(p, []ref.Move{m}, false), got, np.FEN(), s.transcript(10))
						break
					}
				}
			}
			s.shutdown(true)
			c.Distinct(base.FEN())
		}
	case "moves":
		for i := 0; i < cs.N; i++ {
			h := randomHist(r, 80)
			if i%3 == 0 {
				h = gen.Hist{Start: gen.TacticOK(r, r.Intn(gen.NumTactics))}
			}
			if i%4 == 1 {
				// whole games through Engine.Move from FENs with running clocks: threefold and five-fold
				// repetitions, clocks at 100, ordinary play; then the string session on the final position
				start, moves, _ := specialGame(r, []int{2, 9, 9, 3, 6}[r.Intn(5)])
				if start.Half == 0 && r.Intn(2) == 0 {
					start.Half = 1 + r.Intn(20)
				}
				moveStringsGame(c, r, start, moves)
				continue
			}
			moveStrings(c, r, h.Final())
		}
	}
}

func trySquare(c *fw.Ctx, s string) {
	c.Eval(1)
	c.Count("square_inputs", 1)
	c.Distinct("sq:" + s)
	defer func() {
		if r := recover(); r != nil {
			c.Violate("text:square-panic", "ParseSquareStr(%q) panicked: %v", s, r)
		}
	}()
	sq, err := board.ParseSquareStr(s)
	want := len(s) == 2 && strings.ContainsRune("abcdefghABCDEFGH", rune(s[0])) && s[1] >= '1' && s[1] <= '8'
	if (err == nil) != want {
		c.Violate("text:square-accept", "ParseSquareStr(%q) err=%v, expected accept=%v", s, err, want)
	}
	if err == nil {
		if !sq.IsValid() {
			c.Violate("text:square-illformed", "ParseSquareStr(%q) = %d", s, sq)
		} else if want && strings.ToLower(s) != sq.String() {
			c.Violate("text:square-value", "ParseSquareStr(%q) = %v", s, sq)
		}
	}
}

func tryMoveParse(c *fw.Ctx, s string) {
	c.Eval(1)
	c.Count("square_inputs", 1)
	c.Distinct("mv:" + s)
	defer func() {
		if r := recover(); r != nil {
			c.Violate("text:move-panic", "ParseMove(%q) panicked: %v", s, r)
		}
	}()
	m, err := board.ParseMove(s)
	_, _, _, ok := ref.ParseMoveStr(strings.ToLower(s))
	ascii := true
	for i := 0; i < len(s); i++ {
		if s[i] >= 0x80 {
			ascii = false
		}
	}
	want := ok && ascii
	if (err == nil) != want {
		c.Violate("text:move-accept", "ParseMove(%q) err=%v, expected accept=%v", s, err, want)
	}
	if err == nil && (!m.From.IsValid() || !m.To.IsValid()) {
		c.Violate("text:move-illformed", "ParseMove(%q) = %+v", s, m)
	}
}

// moveStrings: a move string is accepted by a game exactly when it denotes a legal move; rejected input changes nothing.
func moveStrings(c *fw.Ctx, r *rand.Rand, p ref.Pos) { moveStringsGame(c, r, p, nil) }

// moveStringsGame is moveStrings at the end of a game played through Engine.Move: every move of the game is a
// string that denotes a legal move and must be accepted whatever the game's history (repetitions, clocks).
var moveHung atomic.Bool

func moveStringsGame(c *fw.Ctx, r *rand.Rand, start ref.Pos, moves []ref.Move) {
	if moveHung.Load() {
		return
	}
	ctx := context.Background()
	e := recipes[0].newEngine(ctx, engine.Options{Depth: 1, Hash: 0}, 0, nil)
	if err := e.Reset(ctx, start.FEN()); err != nil {
		c.Violate("text:reset", "Reset(%q): %v", start.FEN(), err)
		return
	}
	g := ref.NewGame(start)
	for i, m := range moves {
		var err error
		func() {
			defer func() {
				if rec := recover(); rec != nil {
					c.Violate("text:enginemove-panic", "Engine.Move(%q) panicked as move %d of the game from %q %v: %v", m.String(), i+1, start.FEN(), gen.Hist{Start: start, Moves: moves}.MoveStrs(), rec)
					err = fmt.Errorf("panic")
				}
			}()
			err = e.Move(ctx, m.String())
		}()
		c.Eval(1)
		c.Count("game_move_strings", 1)
		if err != nil {
			if err.Error() != "panic" {
				c.Violate("text:move-wrongly-rejected", "Engine.Move(%q) rejected as move %d of the game from %q %v although it denotes a legal move: %v", m.String(), i+1, start.FEN(), gen.Hist{Start: start, Moves: moves}.MoveStrs(), err)
			}
			return
		}
		ev := g.Push(m)
		if ev.Count >= 3 {
			c.Count("game_moves_after_repetition", 1)
		}
	}
	p := g.Cur
	legal := map[string]bool{}
	for _, m := range p.LegalMoves() {
		legal[m.String()] = true
	}
	pos, _ := adapt.Position(p)
	var cands []string
	for s := range legal {
		cands = append(cands, s, strings.ToUpper(s), strings.ToUpper(s[:2])+s[2:])
		if len(s) == 4 {
			cands = append(cands, s+"q", s+"n", s+" ", s[:3], s+"x", " "+s, s[2:]+s[:2])
		} else {
			cands = append(cands, s[:4], s[:4]+"k", s[:4]+"p", s[:4]+"K", s+"q")
			// characters beyond one byte whose low byte spells a promotion letter
			for _, off := range []rune{0x100, 0x200, 0x2100, 0xFF00, 0x10000} {
				cands = append(cands, s[:4]+string(rune(s[4])+off), s[:4]+string(rune(s[4]-32)+off))
			}
		}
	}
	pseudoIllegal := map[string]bool{}
	for _, bm := range pos.PseudoLegalMoves(adapt.BColor(p.White)) {
		s := adapt.TupleOfB(bm).String()
		if !legal[s] {
			pseudoIllegal[s] = true
			cands = append(cands, s)
		}
	}
	for i := 0; i < 250; i++ {
		s := ref.Move{From: r.Intn(64), To: r.Intn(64), Promo: []int{0, 0, 0, ref.Queen, ref.Knight, ref.Rook, ref.Bishop}[r.Intn(7)]}.String()
		cands = append(cands, s)
	}
	// pawn moves to the last rank without / with wrong promotion letters, and promotion letters on other moves
	for i := 0; i < 40; i++ {
		cands = append(cands, mutate(r, "e2e4"), mutate(r, "a7a8q"))
	}
	cands = append(cands, "", "0000", "e2", "e2e4e5", "é2e4", "e2e4\x00", "\xff\xff\xff\xff")
	before := e.Position()
	snap := adapt.TakeSnap(e.Board())
	for _, s := range cands {
		c.Eval(1)
		c.Count("move_inputs", 1)
		c.Distinct(p.Key() + "|" + s)
		want := false
		ascii := true
		for i := 0; i < len(s); i++ {
			if s[i] >= 0x80 {
				ascii = false
			}
		}
		if ascii {
			want = legal[strings.ToLower(s)]
		}
		var err error
		answered := make(chan struct{})
		go func() {
			defer close(answered)
			defer func() {
				if rec := recover(); rec != nil {
					c.Violate("text:enginemove-panic", "Engine.Move(%q) panicked in %q: %v", s, p.FEN(), rec)
					err = fmt.Errorf("panic")
				}
			}()
			err = e.Move(ctx, s)
		}()
		select {
		case <-answered:
		case <-time.After(20 * time.Second):
			c.Violate("text:enginemove-hang", "Engine.Move(%q) in %q has not returned after 20 s\n%s", s, p.FEN(), stacks())
			moveHung.Store(true) // (one report per worker: every further call would cost the same wait)
			return
		}
		if err == nil {
			c.Count("move_accepted", 1)
			if !want {
				c.Violate("text:move-wrongly-accepted", "Engine.Move(%q) accepted in %q although it does not denote a legal move", s, p.FEN())
			} else {
				// the game must now be the successor the string denotes
				f, t, pr, _ := ref.ParseMoveStr(strings.ToLower(s))
				if m, ok := p.FindMove(f, t, pr); ok {
					np := p.Apply(m)
					if got := e.Position(); got != np.FEN() {
						c.Violate("text:move-wrong-successor", "after Engine.Move(%q) in %q the game is %q, expected %q", s, p.FEN(), got, np.FEN())
					}
				}
			}
			if e.TakeBack(ctx) != nil {
				return
			}
		} else {
			c.Count("move_rejected", 1)
			if pseudoIllegal[s] {
				c.Count("move_rejected_pseudolegal", 1)
			}
			if want {
				c.Violate("text:move-wrongly-rejected", "Engine.Move(%q) rejected in %q although it denotes a legal move: %v", s, p.FEN(), err)
			}
			if got := e.Position(); got != before {
				c.Violate("text:rejected-changed-state", "rejected Engine.Move(%q) changed the game from %q to %q", s, before, got)
				return
			}
		}
	}
	if d := adapt.TakeSnap(e.Board()).DiffNoResult(snap); d != "" {
		c.Violate("text:rejected-changed-state", "after the move-string session in %q the board differs: %s", p.FEN(), d)
	}
	// FEN strings through the engine: a rejected one leaves the game alone, an accepted one is the new game
	for i := 0; i < 12; i++ {
		s := mutate(r, p.FEN())
		before := e.Position()
		var err error
		func() {
			defer func() {
				if rec := recover(); rec != nil {
					c.Violate("text:enginereset-panic", "Engine.Reset(%q) panicked: %v", clip(s), rec)
					err = fmt.Errorf("panic")
				}
			}()
			err = e.Reset(ctx, s)
		}()
		c.Eval(1)
		c.Count("engine_reset_inputs", 1)
		if err != nil {
			if got := e.Position(); got != before {
				c.Violate("text:rejected-changed-state", "rejected Engine.Reset(%q) changed the game from %q to %q", clip(s), before, got)
			}
			continue
		}
		pos, turn, np, fm, derr := fen.Decode(s)
		if derr != nil || pos == nil {
			c.Violate("text:enginereset-accept", "Engine.Reset accepted %q which fen.Decode rejects", clip(s))
			continue
		}
		if got, want := e.Position(), fen.Encode(pos, turn, np, fm); got != want {
			c.Violate("text:enginereset-state", "after Engine.Reset(%q) the engine reports %q, the string decodes to %q", clip(s), got, want)
		}
	}
}
