package mon

import (
	"context"
	"fmt"
	"math"
	"math/rand"
	"strings"
	"sync"
	"sync/atomic"
	"time"

	"github.com/herohde/morlock/pkg/board"
	"github.com/herohde/morlock/pkg/engine"
	"github.com/herohde/morlock/pkg/eval"
	"github.com/herohde/morlock/pkg/search"
	"github.com/herohde/morlock/pkg/search/searchctl"
	"github.com/herohde/morlock/pkg/verifhook"
	"github.com/seekerror/stdlib/pkg/lang"

	"verif/adapt"
	"verif/fw"
	"verif/gen"
	"verif/ref"
)

// C15 — iterative deepening reports each depth faithfully and stops when it should.

func drain(out <-chan search.PV, max time.Duration) ([]search.PV, bool) {
	var pvs []search.PV
	t := time.After(max)
	for {
		select {
		case pv, ok := <-out:
			if !ok {
				return pvs, true
			}
			pvs = append(pvs, pv)
		case <-t:
			return pvs, false
		}
	}
}

// mateWithin: a forced mate (either way) within the searched depth, computed from the score's fields
// (not through Score.MateDistance, which is part of the code under test).
func mateWithin(pv search.PV) bool {
	switch pv.Score.Type {
	case eval.Inf, eval.NegInf:
		return true
	case eval.MateInX:
		d := int(pv.Score.Mate)
		if d < 0 {
			d = -d
		}
		return d <= pv.Depth
	}
	return false
}

// checkStream compares a PV stream with direct fixed-depth searches.
func checkStream(c *fw.Ctx, rc *recipe, h gen.Hist, pvs []search.PV, withTable bool, what string) {
	prev := 0
	for _, pv := range pvs {
		if pv.Depth <= prev || pv.Depth < 1 {
			c.Violate("iter:order", "iteration depths not strictly increasing from 1: %d after %d: %s", pv.Depth, prev, what)
		}
		prev = pv.Depth
		b, _ := boardOf(h)
		n, sc, moves, err := rc.build(idWrap).Search(budgetCtx(), fullWindow(), b, pv.Depth)
		if err != nil {
			continue
		}
		c.Eval(1)
		c.Count("iterations_compared", 1)
		if !sameScore(sc, pv.Score) {
			c.Violate("iter:score", "depth %d reported with score %v, a direct search gives %v: %s", pv.Depth, pv.Score, sc, what)
		}
		if !withTable {
			if board.PrintMoves(moves) != board.PrintMoves(pv.Moves) {
				c.Violate("iter:pv", "depth %d reported with PV [%v], a direct search gives [%v]: %s", pv.Depth, board.PrintMoves(pv.Moves), board.PrintMoves(moves), what)
			}
			if n != pv.Nodes && legalCount(b) > 0 {
				c.Violate("iter:nodes", "depth %d reported with %d nodes, a direct search visits %d: %s", pv.Depth, pv.Nodes, n, what)
			}
		}
	}
}

func c15Root(r *rand.Rand, i int) (gen.Hist, string) {
	h, tag := c11Root(r, i)
	return h, tag
}

func hookDelays(seed int64, points map[string]bool, maxMicros int) func() {
	var n atomic.Uint64
	verifhook.Set(func(name string) {
		if !points[name] {
			return
		}
		x := n.Add(1)*0x9E3779B97F4A7C15 + uint64(seed)
		x ^= x >> 29
		if x%3 == 0 {
			time.Sleep(time.Duration(x%uint64(maxMicros)) * time.Microsecond)
		}
	})
	return func() { verifhook.Set(nil) }
}

func runC15(c *fw.Ctx, cs fw.Case) {
	r := cs.Rand()
	ctx := context.Background()
	switch cs.Kind {
	case "limits":
		durs := []time.Duration{0, 1, 999, time.Microsecond, time.Millisecond, 7 * time.Millisecond, time.Second, 90 * time.Second, time.Hour, 1000 * time.Hour, math.MaxInt64 / 4, math.MaxInt64 / 2, math.MaxInt64}
		moves := []int{0, 1, 2, 3, 5, 10, 39, 40, 41, 100, 1000, 1 << 20, 1<<20 + 1, 1 << 31, math.MaxInt64/2 - 1, math.MaxInt64 / 2, math.MaxInt64 - 1, math.MaxInt64, -1, -40, math.MinInt64}
		check := func(w, b time.Duration, m int) {
			for _, col := range []board.Color{board.White, board.Black} {
				c.Eval(1)
				c.Count("limit_checks", 1)
				c.DistinctHash(uint64(w)*31 ^ uint64(b)*17 ^ uint64(m)*3 ^ uint64(col))
				func() {
					defer func() {
						if rec := recover(); rec != nil {
							c.Violate("time:panic", "TimeControl{%v,%v,%d}.Limits(%v) panicked: %v", w, b, m, col, rec)
						}
					}()
					soft, hard := searchctl.TimeControl{White: w, Black: b, Moves: m}.Limits(col)
					rem := w
					if col == board.Black {
						rem = b
					}
					if hard > rem {
						c.Violate("time:hard-exceeds-clock", "TimeControl{white %v, black %v, movestogo %d}: hard limit %v for %v exceeds the %v left on the clock", w, b, m, hard, col, rem)
					}
					if soft > hard || soft < 0 {
						c.Violate("time:soft", "TimeControl{white %v, black %v, movestogo %d}: soft %v hard %v", w, b, m, soft, hard)
					}
				}()
			}
		}
		for _, w := range durs {
			for _, b := range durs {
				for _, m := range moves {
					check(w, b, m)
				}
			}
		}
		for i := 0; i < cs.N; i++ {
			w := time.Duration(r.Int63n(int64(3 * time.Hour)))
			b := time.Duration(r.Int63n(int64(3 * time.Hour)))
			if i%3 == 0 {
				w = time.Duration(r.Int63())
			}
			m := r.Intn(200)
			if i%7 == 0 {
				m = int(r.Int63())
			}
			check(w, b, m)
		}
		c.Sample(map[string]any{"kind": "limits", "example": "TimeControl{White: 1s, Black: 1s, Moves: 1}.Limits(White)"})
	case "stream":
		for i := 0; i < cs.N; i++ {
			rc := &recipes[r.Intn(len(recipes))]
			h, tag := c15Root(r, i+cs.Idx)
			if i%4 == 1 {
				// mates both ways: the mating net with the attacker to move, or - after one move of his - with the
				// side that is being mated to move (a negative mate score must end the analysis just the same)
				h, tag = gen.Playout(r, gen.TacticOK(r, 8), r.Intn(2), gen.Tactical), "matingnet, either side to move"
			}
			b, ok := boardOf(h)
			if !ok {
				continue
			}
			n0, n1 := branching(b, 0)
			limit := depthFor(n0, n1, 2500, 5)
			if i%4 == 1 && limit < 4 {
				limit = 4
			}
			if rc.name == "turochamp" && limit > 2 {
				limit = 2
			}
			withTable := rc.positionDetermined && r.Intn(2) == 0
			if withTable {
				limit = ttSafeDepth(h, limit) // with a table: no repetition draw inside any of the trees
			}
			var tt search.TranspositionTable = search.NoTranspositionTable{}
			if withTable {
				tt, _ = newTable(ctx, r.Intn(7))
			}
			what := fmt.Sprintf("recipe %s limit %d table %v %s (%s)", rc.name, limit, withTable, histDesc(h), tag)
			before := adapt.TakeSnap(b)
			moveless := legalCount(b) == 0
			handle, out := (&searchctl.Iterative{Root: rc.build(idWrap)}).Launch(ctx, b, tt, eval.Random{}, searchctl.Options{DepthLimit: lang.Some(uint(limit))})
			pvs, closed := drain(out, 120*time.Second)
			final := handle.Halt()
			if !closed {
				c.Inconclusive("stream did not close within the watchdog: %s", what)
				continue
			}
			c.Count("streams", 1)
			c.Distinct(what)
			handBack(c, "iter:handback", before, b, moveless, what)
			if len(pvs) == 0 {
				c.Violate("iter:empty", "analysis ended without reporting any iteration: %s", what)
				continue
			}
			checkStream(c, rc, h, pvs, withTable, what)
			last := pvs[len(pvs)-1]
			// gaps are legal (one-slot channel drops unread iterations) but the end is not negotiable
			if mateWithin(last) {
				c.Count("ended_by_mate", 1)
				if last.Score.Type == eval.NegInf || (last.Score.Type == eval.MateInX && last.Score.Mate < 0) {
					c.Count("ended_by_mate_against_the_mover", 1)
				}
			} else if last.Depth != limit {
				c.Violate("iter:limit", "analysis with depth limit %d ended at depth %d without a forced mate: %s", limit, last.Depth, what)
			}
			for _, pv := range pvs[:len(pvs)-1] {
				if mateWithin(pv) {
					c.Violate("iter:mate-stop", "analysis continued to depth %d after depth %d had found a forced mate within the searched depth (%v): %s", last.Depth, pv.Depth, pv.Score, what)
				}
			}
			if final.Depth != last.Depth || !sameScore(final.Score, last.Score) {
				c.Violate("iter:halt-after-end", "Halt after the natural end returns depth %d (%v), the last reported iteration was depth %d (%v): %s", final.Depth, final.Score, last.Depth, last.Score, what)
			}
			if i == 0 && cs.Idx%16 == 0 {
				c.Sample(map[string]any{"kind": "stream", "recipe": rc.name, "limit": limit, "start": h.Start.FEN(), "moves": h.MoveStrs(), "iterations": len(pvs)})
			}
		}
	case "halt":
		defer hookDelays(cs.Seed, map[string]bool{"iter.done": true, "iter.stored": true, "iter.sent": true, "iter.halt.enter": true, "iter.halt.waited": true}, 1500)()
		for i := 0; i < cs.N; i++ {
			rc := &recipes[[]int{0, 3, 1, 2}[r.Intn(4)]]
			h, tag := c15Root(r, i+cs.Idx)
			b, ok := boardOf(h)
			if !ok || legalCount(b) == 0 {
				continue
			}
			what := fmt.Sprintf("recipe %s unlimited analysis %s (%s)", rc.name, histDesc(h), tag)
			handle, out := (&searchctl.Iterative{Root: rc.build(idWrap)}).Launch(ctx, b, search.NoTranspositionTable{}, eval.Random{}, searchctl.Options{})
			// read k iterations, then halt
			k := 1 + r.Intn(3)
			var seen []search.PV
			ended := false
			timeout := time.After(60 * time.Second)
		read:
			for len(seen) < k {
				select {
				case pv, ok := <-out:
					if !ok {
						ended = true
						break read
					}
					seen = append(seen, pv)
				case <-timeout:
					break read
				}
			}
			maxSeen := 0
			for _, pv := range seen {
				if pv.Depth > maxSeen {
					maxSeen = pv.Depth
				}
			}
			if ended && (len(seen) == 0 || !mateWithin(seen[len(seen)-1])) {
				c.Violate("iter:ended-unasked", "analysis without depth limit ended by itself at depth %d without a forced mate: %s", maxSeen, what)
			}
			time.Sleep(time.Duration(r.Intn(2000)) * time.Microsecond)
			final := handle.Halt()
			rest, _ := drain(out, 60*time.Second)
			c.Eval(1)
			c.Count("halts_after_k", 1)
			c.Distinct(what + fmt.Sprint(k))
			if final.Depth < maxSeen {
				c.Violate("iter:halt-older", "Halt returned depth %d although depth %d had already been reported: %s", final.Depth, maxSeen, what)
			}
			if final.Depth < 1 {
				c.Violate("iter:halt-before-depth1", "Halt returned depth %d: %s", final.Depth, what)
			}
			checkStream(c, rc, h, append(append(seen, rest...), final)[len(seen)+len(rest):], false, what+" (iteration returned by Halt)")
			checkStream(c, rc, h, seen, false, what)
		}
	case "gate":
		for i := 0; i < cs.N; i++ {
			rc := &recipes[[]int{0, 3, 1, 2}[r.Intn(4)]]
			h, tag := c15Root(r, i+cs.Idx)
			b, ok := boardOf(h)
			if !ok || legalCount(b) == 0 {
				continue
			}
			var gate *gateEval
			root := rc.build(func(e eval.Evaluator) eval.Evaluator { gate = newGate(e); return gate })
			// number of evaluations of the depth-1 search
			pb, _ := boardOf(h)
			if _, _, _, err := root.Search(budgetCtx(), fullWindow(), pb, 1); err != nil || gate.calls.Load() == 0 {
				continue
			}
			evals := gate.calls.Load()
			root = rc.build(func(e eval.Evaluator) eval.Evaluator { gate = newGate(e); return gate })
			gate.blockAt.Store(1 + r.Int63n(evals))
			what := fmt.Sprintf("recipe %s gate at evaluation %d of %d of depth 1 %s (%s)", rc.name, gate.blockAt.Load(), evals, histDesc(h), tag)
			handle, out := (&searchctl.Iterative{Root: root}).Launch(ctx, b, search.NoTranspositionTable{}, eval.Random{}, searchctl.Options{DepthLimit: lang.Some(uint(2))})
			select {
			case <-gate.blocked:
			case <-time.After(60 * time.Second):
				gate.open()
				handle.Halt()
				c.Inconclusive("gate not reached: %s", what)
				continue
			}
			// the search goroutine is parked inside depth 1. Halt must not return until it is released.
			halted := make(chan search.PV, 1)
			go func() { halted <- handle.Halt() }()
			// sometimes a second caller halts while the first is still waiting (a clock running out while the
			// driver stops the search): it has to wait just the same
			var second chan search.PV
			if r.Intn(2) == 0 {
				second = make(chan search.PV, 1)
				time.Sleep(time.Duration(r.Intn(2000)) * time.Microsecond)
				go func() { second <- handle.Halt() }()
				c.Count("gated_overlapping_halts", 1)
			}
			early := false
			select {
			case pv := <-halted:
				early = true
				c.Violate("iter:halt-before-depth1", "Halt returned (depth %d, %d moves) while the depth-1 search was still inside an evaluation: %s", pv.Depth, len(pv.Moves), what)
				halted <- pv
			case pv := <-second:
				early = true
				c.Violate("iter:halt-before-depth1", "a second, overlapping Halt returned (depth %d, %d moves) while the depth-1 search was still inside an evaluation: %s", pv.Depth, len(pv.Moves), what)
				second <- pv
			case <-time.After(30 * time.Millisecond):
			}
			gate.open()
			if second != nil {
				select {
				case pv := <-second:
					if !early && (pv.Depth < 1 || len(pv.Moves) == 0) {
						c.Violate("iter:halt-before-depth1", "the second of two overlapping Halts returned depth %d with %d moves: %s", pv.Depth, len(pv.Moves), what)
					}
				case <-time.After(60 * time.Second):
					c.Violate("iter:halt-hang", "a second, overlapping Halt did not return within 60 s after the gate opened: %s", what)
				}
			}
			var final search.PV
			select {
			case final = <-halted:
			case <-time.After(60 * time.Second):
				c.Violate("iter:halt-hang", "Halt did not return within 60 s after the gate opened: %s", what)
				continue
			}
			pvs, _ := drain(out, 60*time.Second)
			c.Eval(1)
			c.Count("gated_halts", 1)
			c.Distinct(what)
			if !early {
				if final.Depth < 1 || len(final.Moves) == 0 {
					c.Violate("iter:halt-before-depth1", "Halt returned depth %d with %d moves: %s", final.Depth, len(final.Moves), what)
				} else {
					checkStream(c, rc, h, []search.PV{final}, false, what+" (iteration returned by Halt)")
				}
				if len(pvs) == 0 {
					c.Violate("iter:empty", "no iteration was reported although depth 1 completed: %s", what)
				}
			}
		}
	case "clock":
		// an almost used-up clock: the analysis must still complete (and report) depth 1
		for i := 0; i < cs.N; i++ {
			rc := &recipes[r.Intn(len(recipes))]
			h, tag := c15Root(r, i+cs.Idx)
			b, ok := boardOf(h)
			if !ok || legalCount(b) == 0 {
				continue
			}
			tc := searchctl.TimeControl{White: time.Duration(r.Intn(3)) * time.Millisecond, Black: time.Duration(r.Intn(3)) * time.Millisecond, Moves: r.Intn(3)}
			what := fmt.Sprintf("recipe %s time control %v %s (%s)", rc.name, tc, histDesc(h), tag)
			_, out := (&searchctl.Iterative{Root: rc.build(idWrap)}).Launch(ctx, b, search.NoTranspositionTable{}, eval.Random{}, searchctl.Options{TimeControl: lang.Some(tc)})
			pvs, closed := drain(out, 120*time.Second)
			if !closed {
				c.Violate("iter:clock-hang", "analysis under a %v clock did not end within 120 s: %s", tc, what)
				continue
			}
			c.Eval(1)
			c.Count("clock_runs", 1)
			c.Distinct(what)
			if len(pvs) == 0 {
				c.Violate("iter:empty", "analysis under time control ended without a completed iteration: %s", what)
				continue
			}
			checkStream(c, rc, h, pvs, false, what)
		}
	case "longrun":
		// "otherwise runs until halted": an unlimited analysis of a position where every iteration is trivial (no
		// legal move and not in check, or the hundredth ply falling on every reply) runs through iteration
		// counts beyond 8 and 16 bits within a second; it must still be running then
		for i := 0; i < cs.N; i++ {
			rc := &recipes[[]int{0, 0, 3}[r.Intn(3)]]
			var h gen.Hist
			tag := ""
			if t, ok := terminalRoot(r, false); ok && r.Intn(2) == 0 {
				h, tag = t, "stalemate root"
			} else {
				p := smallMaterial(r)
				p.Half = 99
				h, tag = gen.Hist{Start: p}, "clock 99"
				quiet := len(p.LegalMoves()) > 0
				for _, m := range p.LegalMoves() {
					if m.Capture != 0 || m.Piece == ref.Pawn {
						quiet = false
					}
				}
				if !quiet {
					continue
				}
			}
			b, ok := boardOf(h)
			if !ok {
				continue
			}
			target := []int{300, 70000}[i%2]
			what := fmt.Sprintf("recipe %s unlimited analysis of %s (%s), watched up to iteration %d", rc.name, histDesc(h), tag, target)
			handle, out := (&searchctl.Iterative{Root: rc.build(idWrap)}).Launch(ctx, b, search.NoTranspositionTable{}, eval.Random{}, searchctl.Options{})
			deepest, ended, mated := 0, false, false
			watchdog := time.After(60 * time.Second)
		watch:
			for deepest < target {
				select {
				case pv, ok := <-out:
					if !ok {
						ended = true
						break watch
					}
					if pv.Depth > deepest {
						deepest = pv.Depth
					}
					if mateWithin(pv) {
						mated = true
					}
				case <-watchdog:
					break watch
				}
			}
			final := handle.Halt()
			c.Eval(1)
			c.Count("long_runs", 1)
			c.Distinct(what)
			switch {
			case ended && !mated:
				c.Violate("iter:ended-by-itself", "the analysis ended by itself after iteration %d (no depth limit, no mate): %s", deepest, what)
			case !ended && deepest < target:
				c.Inconclusive("iteration %d not reached within the watchdog: %s", target, what)
			default:
				c.Count("long_runs_beyond_"+fmt.Sprint(target), 1)
				if final.Depth < deepest {
					c.Violate("iter:halt-regressed", "Halt returned iteration %d after iteration %d had been reported: %s", final.Depth, deepest, what)
				}
			}
		}
	case "uciclock":
		// the limits a 'go' with clocks is granted, observed where the search arms its timer (hook timectrl.*):
		// whatever the driver makes of the parameters, the hard limit must not exceed the mover's clock as sent
		type obs struct{ white, black, hard int64 }
		var omu sync.Mutex
		var seen []obs
		var cur obs
		verifhook.SetObserver(func(name string, v int64) {
			omu.Lock()
			defer omu.Unlock()
			switch name {
			case "timectrl.white":
				cur.white = v
			case "timectrl.black":
				cur.black = v
			case "timectrl.hard":
				cur.hard = v
				seen = append(seen, cur)
			}
		})
		defer verifhook.SetObserver(nil)
		clocks := []int64{0, 0, 0, 1, 2, 7, 40, 999, 1000, 60000, 3600000, 86400000}
		for i := 0; i < cs.N; i++ {
			rc := &recipes[r.Intn(len(recipes))]
			opts, _ := recipeOptions(r, rc)
			h, tag := c15Root(r, i+cs.Idx)
			cur0 := ref.NewGameFrom(h.Start, h.Moves).Cur
			if len(cur0.LegalMoves()) == 0 {
				continue
			}
			s := newUCISession(rc, opts, 0, false, 0, false)
			s.send(positionCmd(h.Start, h.Moves, true))
			for k := 0; k < 4; k++ {
				w, b := clocks[r.Intn(len(clocks))], clocks[r.Intn(len(clocks))]
				if r.Intn(3) == 0 {
					w, b = int64(r.Intn(5000)), int64(r.Intn(5000))
				}
				// the two clocks in either order, optionally movestogo / increments / a depth limit alongside
				parts := []string{fmt.Sprintf("wtime %d", w), fmt.Sprintf("btime %d", b)}
				if r.Intn(2) == 0 {
					parts[0], parts[1] = parts[1], parts[0]
				}
				if r.Intn(2) == 0 {
					parts = append(parts, fmt.Sprintf("movestogo %d", []int{1, 1, 2, 5, 40, 1000}[r.Intn(6)]))
				}
				if r.Intn(3) == 0 {
					parts = append(parts, "winc 1000 binc 1000")
				}
				if r.Intn(4) == 0 {
					parts = append([]string{"depth 1"}, parts...)
				}
				cmd := "go " + strings.Join(parts, " ")
				omu.Lock()
				n0 := len(seen)
				omu.Unlock()
				mark := s.send(cmd)
				s.send("stop")
				_, _, answered := s.waitLine(mark, isBestmove, uciWatchdog)
				_, synced := s.sync()
				what := fmt.Sprintf("engine %s options %v, %s (%s), %q: %s", rc.name, opts, histDesc(h), tag, cmd, s.transcript(10))
				if !answered || !synced {
					c.Violate("time:uci-unanswered", "no bestmove / readyok: %s", what)
					break
				}
				omu.Lock()
				got := append([]obs(nil), seen[n0:]...)
				omu.Unlock()
				c.Eval(1)
				c.Count("uci_clock_gos", 1)
				if w == 0 || b == 0 {
					c.Count("uci_clock_zero", 1)
				}
				c.Distinct(fmt.Sprint(rc.name, cur0.White, cmd))
				if len(got) != 1 {
					c.Violate("time:uci-limits-observed", "the search armed its time control %d times for one go: %s", len(got), what)
					continue
				}
				left := w
				if !cur0.White {
					left = b
				}
				if hard := time.Duration(got[0].hard); hard < 0 || hard > time.Duration(left)*time.Millisecond {
					c.Violate("time:uci-hard-exceeds-clock", "hard limit %v granted with %d ms left on the mover's clock (search was handed white %v black %v): %s", hard, left, time.Duration(got[0].white), time.Duration(got[0].black), what)
				}
			}
			s.shutdown(true)
		}
	case "engine-default":
		for i := 0; i < cs.N; i++ {
			rc := &recipes[r.Intn(len(recipes))]
			h, _ := c15Root(r, i+cs.Idx)
			b, ok := boardOf(h)
			if !ok || legalCount(b) == 0 {
				continue
			}
			n0, n1 := branching(b, 0)
			d := depthFor(n0, n1, 1500, 3)
			if rc.name == "turochamp" && d > 2 {
				d = 2
			}
			e := rc.newEngine(ctx, engine.Options{Depth: uint(d)}, 0, nil)
			what := fmt.Sprintf("engine %s default depth %d %s", rc.name, d, histDesc(h))
			if e.Reset(ctx, h.Start.FEN()) != nil {
				continue
			}
			good := true
			for _, m := range h.Moves {
				if e.Move(ctx, m.String()) != nil {
					good = false
				}
			}
			if !good {
				continue
			}
			out, err := e.Analyze(ctx, searchctl.Options{})
			if err != nil {
				continue
			}
			pvs, closed := drain(out, 120*time.Second)
			e.Halt(ctx)
			c.Eval(1)
			c.Count("engine_default_runs", 1)
			c.Distinct(what)
			if !closed || len(pvs) == 0 {
				c.Violate("iter:engine-default", "analysis without explicit limit did not end at the engine's default depth %d: %s", d, what)
				continue
			}
			if last := pvs[len(pvs)-1]; !mateWithin(last) && last.Depth != d {
				c.Violate("iter:engine-default", "analysis without explicit limit ended at depth %d, the engine default is %d: %s", last.Depth, d, what)
			}
			// an explicit limit of zero means "no limit" and overrides the engine default: runs until halted
			if d <= 2 {
				out2, err := e.Analyze(ctx, searchctl.Options{DepthLimit: lang.Some(uint(0))})
				if err != nil {
					continue
				}
				beyond, ended, mated := false, false, false
				timeout := time.After(20 * time.Second)
			read0:
				for {
					select {
					case pv, ok := <-out2:
						if !ok {
							ended = true
							break read0
						}
						if mateWithin(pv) {
							mated = true
						}
						if pv.Depth > d {
							beyond = true
							break read0
						}
					case <-timeout:
						break read0
					}
				}
				e.Halt(ctx)
				c.Count("explicit_no_limit_runs", 1)
				if ended && !mated && !beyond {
					c.Violate("iter:explicit-no-limit", "analysis with an explicit depth limit of 0 (no limit) ended by itself at the engine default depth %d: %s", d, what)
				}
			}
		}
	}
}

func init() {
	fw.Register(&fw.Monitor{
		ID:          "C15",
		Level:       "exploration",
		Race:        true,
		Technique:   "runtime trace checking of the PV stream against direct fixed-depth searches; gate evaluator that parks the search goroutine inside depth 1 while Halt is called; hook-point delays between store/publish of an iteration; enumerated time-control parameters; all under the race detector",
		Rule:        "streams: four engine recipes x generated roots x depth limits (with and without a shared table): depths strictly increasing, each reported iteration equals a direct search (score; PV and nodes without table), end exactly at the limit or at the first forced mate within depth, Halt after the end returns the last iteration; halts: unlimited analysis halted after k reported iterations with random delays injected at iter.done/iter.stored/iter.sent/iter.halt.*: Halt returns a completed iteration >= every one reported before, never ended by itself; gate: search parked inside the j-th evaluation of depth 1 while Halt is called (in half of the runs by two overlapping callers): Halt must not return before the gate opens (30 ms grace; correct code cannot return, so no false alarm) and then returns completed depth >= 1; limits: all combinations of 13 clock values x 21 moves-to-go values x 2 colours plus random ones: 0 <= soft <= hard <= remaining, no panic; clock: 0-2 ms clocks still complete depth 1; longrun: unlimited analyses of trivial roots (stalemate, clock 99 with quiet moves only) watched beyond iteration 300 and 70000: still running, Halt returns the latest; uciclock: UCI go lines with clocks (exact zeros, either order, movestogo, increments) on all four engines: the hard limit the search arms (observed at hook timectrl.hard) is within [0, mover's clock as sent]; engine default depth; distinct = distinct (recipe, history, parameters)",
		Assumptions: []string{"gaps in the PV stream are legal: the one-slot channel deliberately drops an unread iteration", "clocks are non-negative (the quantifier of the property)"},
		Timeout:     minutes(15, 120),
		Cases: func(tier string, seed int64) []fw.Case {
			l := []fw.Case{{Idx: 0, Kind: "limits", Seed: seed, N: pick(tier, 5000, 500000)}}
			l = mkCases(l, "stream", 24, seed, pick(tier, 8, 200))
			l = mkCases(l, "halt", 12, seed, pick(tier, 10, 250))
			l = mkCases(l, "gate", 12, seed, pick(tier, 8, 250))
			l = mkCases(l, "clock", 6, seed, pick(tier, 8, 300))
			l = mkCases(l, "engine-default", 6, seed, pick(tier, 6, 200))
			l = mkCases(l, "uciclock", 6, seed, pick(tier, 8, 200))
			l = mkCases(l, "longrun", 4, seed, pick(tier, 4, 40))
			return l
		},
		Floors: func(string) map[string]int64 {
			return map[string]int64{"limit_checks": 10000, "streams": 100, "iterations_compared": 500, "ended_by_mate": 3, "ended_by_mate_against_the_mover": 2, "halts_after_k": 60, "gated_halts": 50, "clock_runs": 20, "engine_default_runs": 12, "explicit_no_limit_runs": 6, "uci_clock_gos": 100, "uci_clock_zero": 20, "gated_overlapping_halts": 20, "long_runs_beyond_70000": 1, "long_runs_beyond_300": 1}
		},
		Run: runC15,
	})
}
