package mon

import (
	"fmt"
	"math/rand"
	"sync"

	"github.com/herohde/morlock/pkg/board"

	"verif/adapt"
	"verif/fw"
	"verif/gen"
	"verif/ref"
)

// C05 game results, C07 hashing, C08 take-back/fork: all three drive game boards through
// randomised histories in lock-step with the reference game (see game.go).

// smallMaterial builds a legal position with kings and 1-3 further pieces (minor-heavy).
func smallMaterial(r *rand.Rand) ref.Pos {
	for {
		var p ref.Pos
		p.EP = -1
		n := 1 + r.Intn(3)
		sqs := r.Perm(64)
		p.B[sqs[0]] = ref.King
		p.B[sqs[1]] = -ref.King
		for i := 0; i < n; i++ {
			v := []int8{ref.Bishop, ref.Bishop, ref.Knight, ref.Knight, ref.Pawn, ref.Rook, ref.Queen, ref.Bishop}[r.Intn(8)]
			if v == ref.Pawn && (ref.Rank(sqs[2+i]) == 0 || ref.Rank(sqs[2+i]) == 7) {
				v = ref.Knight
			}
			if r.Intn(2) == 0 {
				v = -v
			}
			p.B[sqs[2+i]] = v
		}
		p.White = r.Intn(2) == 0
		p.Half = r.Intn(60)
		p.Full = 1 + r.Intn(100)
		wk, bk := sqs[0], sqs[1]
		if d1, d2 := ref.File(wk)-ref.File(bk), ref.Rank(wk)-ref.Rank(bk); d1*d1 <= 1 && d2*d2 <= 1 {
			continue
		}
		if p.InCheck(!p.White) {
			continue
		}
		return p
	}
}

// sparseWithEP: K+B(+N) each, one pawn each on adjacent files, Black's on its home rank and White's on the fifth
// (colours flipped half of the time), side with the home-rank pawn to move.
func sparseWithEP(r *rand.Rand) (ref.Pos, bool) {
	for try := 0; try < 200; try++ {
		var p ref.Pos
		p.EP = -1
		f := r.Intn(8)
		g := f + 1
		if r.Intn(2) == 0 {
			g = f - 1
		}
		if g < 0 || g > 7 {
			continue
		}
		p.B[ref.Sq(f, 4)] = ref.Pawn
		p.B[ref.Sq(g, 6)] = -ref.Pawn
		// kings within reach of the capture square (g,5)
		near := func() int { return ref.Sq(clamp(g-2+r.Intn(5)), 3+r.Intn(5)) }
		wk, bk := near(), near()
		if p.B[wk] != 0 || p.B[bk] != 0 || wk == bk || wk == ref.Sq(g, 5) || bk == ref.Sq(g, 5) || wk == ref.Sq(g, 4) || bk == ref.Sq(g, 4) {
			continue
		}
		if d1, d2 := ref.File(wk)-ref.File(bk), ref.Rank(wk)-ref.Rank(bk); d1*d1 <= 1 && d2*d2 <= 1 {
			continue
		}
		p.B[wk], p.B[bk] = ref.King, -ref.King
		// bishops on one colour complex, sometimes a knight instead or in addition
		parity := r.Intn(2)
		place := func(v int8) {
			for k := 0; k < 50; k++ {
				sq := r.Intn(64)
				if p.B[sq] == 0 && (ref.File(sq)+ref.Rank(sq))%2 == parity && sq != ref.Sq(g, 5) && sq != ref.Sq(g, 4) {
					p.B[sq] = v
					return
				}
			}
		}
		place(ref.Bishop)
		place(-ref.Bishop)
		if r.Intn(4) == 0 {
			place([]int8{ref.Knight, -ref.Knight}[r.Intn(2)])
		}
		p.White = false
		p.Half, p.Full = r.Intn(40), 1+r.Intn(60)
		if p.InCheck(true) || p.InCheck(false) {
			continue
		}
		if r.Intn(2) == 0 {
			p = p.Mirror()
		}
		return p, true
	}
	return ref.Pos{}, false
}

func clamp(x int) int {
	if x < 0 {
		return 0
	}
	if x > 7 {
		return 7
	}
	return x
}

func gameStart(r *rand.Rand, kind int) (ref.Pos, gen.Bias, int) {
	starts := gen.Starts()
	switch kind % 10 {
	case 9: // king beside an enemy home rook with the right still held; capture-happy play
		return gen.TacticOK(r, 10), gen.Trader, 6 + r.Intn(40)
	case 8: // castle, then shuffle: repetition whose first occurrence directly follows castling
		if r.Intn(3) == 0 {
			// ... or castling as the very move that completes the hundred plies
			p := ref.MustFEN([]string{"r3k2r/8/8/8/8/8/8/R3K2R w KQkq - 0 1", "r3k2r/p6p/8/8/8/8/P6P/R3K2R b KQkq - 0 30", "r3k2r/pppq1ppp/2n2n2/8/8/2N2N2/PPPQ1PPP/R3K2R w KQkq - 0 12"}[r.Intn(3)])
			p.Half = 96 + r.Intn(4)
			return p, gen.Bias{Capture: 0.01, Check: 1, Promo: 1, Castle: 60, EP: 1, Quiet: 1, PawnMove: 0.01}, 4 + r.Intn(12)
		}
		return ref.MustFEN([]string{"r3k2r/8/8/8/8/8/8/R3K2R w KQkq - 0 1", "r3k2r/p6p/8/8/8/8/P6P/R3K2R w KQkq - 4 20", "r3k2r/pppq1ppp/2n2n2/8/8/2N2N2/PPPQ1PPP/R3K2R b KQkq - 6 12"}[r.Intn(3)]), gen.CastleShuffle, 30 + r.Intn(60)
	case 0: // repetitions from the initial position (incl. of the start position itself)
		return starts[0], gen.Shuffly, 60 + r.Intn(200)
	case 1: // repetitions from any curated start
		return starts[r.Intn(len(starts))], gen.Shuffly, 40 + r.Intn(260)
	case 2: // long no-progress runs from a FEN clock in 0..99
		p := starts[r.Intn(len(starts))]
		p.Half = r.Intn(100)
		if r.Intn(5) == 0 {
			p.Half = []int{99, 100, 100, 101, 120, 149, 1000}[r.Intn(7)] // a set-up already at or beyond the limit
		}
		return p, gen.NoProgress, 20 + r.Intn(160)
	case 3: // high clocks on sparse boards: the 100th ply arrives before any repetition
		p := gen.TacticOK(r, 8+r.Intn(2))
		p.Half = 60 + r.Intn(40)
		return p, gen.NoProgress, 10 + r.Intn(80)
	case 4: // trading down into the insufficient-material classes and their near misses
		if r.Intn(3) == 0 {
			// ... with an en-passant capture on the way: a pawn about to double-step beside an enemy pawn, bishops
			// on squares of one colour, kings near the pawns (so that the capturing pawn can be taken in turn)
			if p, ok := sparseWithEP(r); ok {
				return p, gen.Bias{Capture: 40, Check: 1, Promo: 1, Castle: 1, EP: 400, Quiet: 1, PawnMove: 6}, 6 + r.Intn(30)
			}
		}
		return smallMaterial(r), gen.Trader, 10 + r.Intn(60)
	case 5:
		p := gen.SynthOK(r)
		return p, gen.Trader, 40 + r.Intn(200)
	case 6: // neutral play from synthetic roots
		return gen.SynthOK(r), gen.Neutral, 20 + r.Intn(200)
	default: // quiet shuffling from tactical shapes (castling, then repetition)
		return gen.TacticOK(r, 4+r.Intn(4)), gen.Quietish, 30 + r.Intn(200)
	}
}

func init() {
	fw.Register(&fw.Monitor{
		ID:          "C05",
		Level:       "exploration",
		Technique:   "runtime reference-model monitor: game boards driven through generated histories (incl. forks and take-backs) in lock-step with an independent game-history model",
		Rule:        "one evaluation = one move played on a game board with the reference history model deciding repetition count, FIDE half-move clock and insufficient material; workload = shuffle-biased, no-progress-biased and trade-biased playouts from curated/synthetic/sparse starts with FEN clocks 0..99, random forks and take-backs; distinct = distinct games (start FEN + move list hash)",
		Assumptions: []string{"reference rules implementation and history model (package ref), validated against published perft numbers at start-up"},
		Setup:       validateOracle,
		Timeout:     minutes(10, 90),
		Cases: func(tier string, seed int64) []fw.Case {
			return mkCases(nil, "games", 64, seed, pick(tier, 250, 16000))
		},
		Floors: func(string) map[string]int64 {
			return map[string]int64{
				"pushes": 50000, "ev_threefold": 200, "ev_fivefold": 20, "ev_threefold_of_start": 5, "ev_rep_first_occ_after_irreversible": 20,
				"ev_rep_first_occ_after_castling": 1, "ev_rep_first_occ_is_start": 5,
				"ev_clock100_first": 20, "ev_clock100_first_from_fen_clock": 10, "ev_insufficient_first": 20, "near_miss_material": 20,
				"adjudicated_mate": 3, "adjudicated_stalemate": 1, "forks": 50, "ev_repetition_first_after_fork": 5, "query_rounds": 20000, "ev_insufficient_after_ep": 5, "ev_clock100_by_castling": 5, "ev_clock_beyond_100_at_setup": 10,
			}
		},
		Run: func(c *fw.Ctx, cs fw.Case) {
			r := cs.Rand()
			for i := 0; i < cs.N; i++ {
				start, bias, plies := gameStart(r, i)
				gm := newGameMon(c, gameFlags{results: true})
				o := gameOpts{plies: plies, bias: bias, popProb: 0.03, forkProb: 0.02, maxTracks: 3}
				if i%3 == 0 {
					o.popProb, o.forkProb = 0, 0
				}
				gm.runGame(r, zt0, start, o)
				t := gm.tracks[0]
				c.Distinct(gm.desc(t))
				if i == 0 && cs.Idx%16 == 0 {
					h := gen.Hist{Start: t.g.Start, Moves: t.g.Moves}
					c.Sample(map[string]any{"start": t.g.Start.FEN(), "moves": h.MoveStrs(), "result": t.b.Result().String()})
				}
			}
		},
	})

	fw.Register(&fw.Monitor{
		ID:          "C07",
		Level:       "exploration",
		Technique:   "runtime invariant monitor: incremental hash compared with the from-scratch hash after every push/pop; global key<->hash maps over all states visited; single-component sensitivity probes",
		Rule:        "one evaluation = one hash observation after a push, pop or fork on a game board (incremental vs from-scratch, same position => same hash, different position => different hash, per table seed), plus sensitivity probes (one component of a position changed); distinct = distinct position keys visited",
		Assumptions: []string{"2^-64 coincidences ignored as the property states", "position identity = placement, side, rights, e.p. target as printed by the reference implementation"},
		Setup:       validateOracle,
		Timeout:     minutes(10, 90),
		Cases: func(tier string, seed int64) []fw.Case {
			l := mkCases(nil, "games", 48, seed, pick(tier, 160, 12000))
			l = mkCases(l, "sensitivity", 16, seed, pick(tier, 1000, 100000))
			l = mkCases(l, "newseeds", 8, seed, pick(tier, 60, 6000))
			return l
		},
		Floors: func(string) map[string]int64 {
			return map[string]int64{"hash_checks": 50000, "pops": 1000, "pop_castle": 5, "pop_ep": 1, "pop_promotion": 5, "sens_piece": 1000, "sens_castle": 100, "sens_ep": 20, "sens_side": 100,
				"mv_castle": 20, "mv_ep": 5, "mv_promo": 20, "mv_cappromo": 5, "mv_rights_lost_by_capture": 5, "starts_with_unbacked_right": 20, "mv_king_takes_home_rook_with_right": 3, "long_games": 4, "rewinds_of_256_or_more": 4}
		},
		Run: func(c *fw.Ctx, cs fw.Case) {
			r := cs.Rand()
			seeds := []int64{0, 1, cs.Seed, cs.Seed >> 7}
			zt := board.NewZobristTable(seeds[cs.Idx%len(seeds)])
			switch cs.Kind {
			case "games":
				gm := newGameMon(c, gameFlags{hash: true})
				for i := 0; i < cs.N; i++ {
					start, bias, plies := gameStart(r, i/2) // (odd i: all ten kinds in turn)
					if i%2 == 0 {
						start, bias = gen.Starts()[r.Intn(len(gen.StartFENs))], gen.Biases[i%len(gen.Biases)]
						if i%4 == 0 {
							bias = gen.Tactical
						}
					}
					start.Half, start.Full = r.Intn(90), 1+r.Intn(90) // clocks must not matter
					if i%8 == 5 {
						// set-ups (as a FEN may give them) that claim a castling right whose rook is not on its home
						// square: the right can never be used, but it is part of the position, and position and hash
						// must drop it together when something moves onto or off that corner
						if q, ok := unbackedRight(r, start); ok {
							start = q
							c.Count("starts_with_unbacked_right", 1)
						}
					}
					o := gameOpts{plies: plies, bias: bias, popProb: 0.15, forkProb: 0.02, maxTracks: 3}
					if i%32 == 7 {
						// a very long game on one board (beyond any 8-, 9- or 10-bit counter or ring), then all of
						// it taken back move by move: the hash is checked at every ply both ways
						start = gen.Starts()[[]int{0, 1, 5}[r.Intn(3)]]
						o = gameOpts{plies: 1100 + r.Intn(200), bias: gen.Shuffly, maxTracks: 1}
						c.Count("long_games", 1)
					}
					gm.runGame(r, zt, start, o)
					if i%4 == 3 || i%32 == 7 {
						t0 := gm.tracks[0]
						n := 0
						for gm.pop(t0) {
							n++
						}
						if n >= 256 {
							c.Count("rewinds_of_256_or_more", 1)
						}
					}
					for _, t := range gm.tracks {
						pp := t.g.Start
						for _, m := range t.g.Moves {
							if m.Piece == ref.King && m.Capture == ref.Rook {
								for _, cr := range []struct {
									sq   int
									flag uint8
								}{{0, ref.CastleWQ}, {7, ref.CastleWK}, {56, ref.CastleBQ}, {63, ref.CastleBK}} {
									if m.To == cr.sq && pp.Cast&cr.flag != 0 {
										c.Count("mv_king_takes_home_rook_with_right", 1)
									}
								}
							}
							pp = pp.Apply(m)
						}
						for _, m := range t.g.Moves {
							switch m.Kind {
							case ref.KCastleK, ref.KCastleQ:
								c.Count("mv_castle", 1)
							case ref.KEnPassant:
								c.Count("mv_ep", 1)
							case ref.KPromotion:
								c.Count("mv_promo", 1)
							case ref.KCapturePromotion:
								c.Count("mv_cappromo", 1)
							}
							if m.Capture == ref.Rook && (m.To == 0 || m.To == 7 || m.To == 56 || m.To == 63) {
								c.Count("mv_rights_lost_by_capture", 1)
							}
						}
					}
					if i == 0 && cs.Idx%16 == 0 {
						h := gen.Hist{Start: gm.tracks[0].g.Start, Moves: gm.tracks[0].g.Moves}
						c.Sample(map[string]any{"zobrist_seed": seeds[cs.Idx%len(seeds)], "start": h.Start.FEN(), "moves": h.MoveStrs()})
					}
				}
			case "sensitivity":
				for i := 0; i < cs.N; i++ {
					h := randomHist(r, 60)
					p := h.Final()
					sensitivity(c, r, zt, p)
				}
			case "newseeds":
				// several goroutines ask for the table of a never-used seed at the same moment (engines are
				// created concurrently in one process): every board must still hash like a table made alone
				for i := 0; i < cs.N; i++ {
					zs := fw.Mix(cs.Seed, int64(i), 77)
					p := randomHist(r, 30).Final()
					const g = 6
					hashes := make([]board.ZobristHash, g)
					var wg sync.WaitGroup
					start := make(chan struct{})
					for k := 0; k < g; k++ {
						wg.Add(1)
						go func(k int) {
							defer wg.Done()
							<-start
							z := board.NewZobristTable(zs)
							if b, err := adapt.Board(z, p); err == nil {
								hashes[k] = b.Hash()
							}
						}(k)
					}
					close(start)
					wg.Wait()
					pos, err := adapt.Position(p)
					if err != nil {
						continue
					}
					want := board.NewZobristTable(zs).Hash(pos, adapt.BColor(p.White))
					c.Eval(1)
					c.Count("concurrent_seed_checks", 1)
					for k := range hashes {
						if hashes[k] != want {
							c.Violate("hash:table-construction", "board created while other goroutines construct the table of seed %d hashes %q to %016x, a table made alone gives %016x", zs, p.Key(), uint64(hashes[k]), uint64(want))
							break
						}
					}
				}
			}
		},
	})

	fw.Register(&fw.Monitor{
		ID:          "C08",
		Level:       "exploration",
		Technique:   "runtime model-based monitor: random push / illegal push / take-back / fork sequences on several boards, each operation checked against recorded snapshots and a from-scratch rebuild; read-only API calls interleaved; forks driven from separate goroutines under the race detector",
		Rule:        "one evaluation = one snapshot comparison (after take-back vs before the matching push; other boards unchanged after an operation; line rebuilt from scratch); operations drawn at random over up to 4 forked boards with nesting depth up to 300; in half of the sessions the read-only board/position API (check, mate, legal moves, attack queries, last move, has-moved ...) is called between operations and must change nothing; concurrent: a board and 1-3 forks of it each run their own pre-drawn push/take-back script in their own goroutine (race build), every snapshot compared with the same script run alone on a board set up from scratch; distinct = distinct operation sessions",
		Assumptions: []string{"forks are used within their documented contract: neither side takes back below the fork point", "Outcome Unknown and Undecided are the same observation (not decided)"},
		Setup:       validateOracle,
		Timeout:     minutes(10, 90),
		Cases: func(tier string, seed int64) []fw.Case {
			l := mkCases(nil, "ops", 64, seed, pick(tier, 100, 10000))
			l = mkCases(l, "concurrent", 8, seed, pick(tier, 40, 2000))
			l = mkCases(l, "deepwalk", 8, seed, pick(tier, 1, 6))
			return mkCases(l, "drawnstalemate", 8, seed, pick(tier, 30, 1500)) // (added last: the cases before keep their seeds)
		},
		Floors: func(string) map[string]int64 {
			return map[string]int64{"drawn_then_stalemate_takebacks": 100, "drawn_then_stalemate_continuations": 500, "pops": 5000, "forks": 200, "pop_castle": 10, "pop_ep": 1, "pop_promotion": 10, "pop_capture": 500, "scratch_compares": 1000, "illegal_pushes": 200, "pop_at_root": 10, "deepwalk_pushes": 100000,
				"ev_repetition_first_after_fork": 5, "query_rounds": 20000, "concurrent_sessions": 100, "concurrent_ops": 10000}
		},
		RaceKinds: map[string]bool{"concurrent": true},
		Run: func(c *fw.Ctx, cs fw.Case) {
			r := cs.Rand()
			if cs.Kind == "concurrent" {
				concurrentForks(c, r, cs.N)
				return
			}
			if cs.Kind == "drawnstalemate" {
				for i := 0; i < cs.N; i++ {
					drawnThenStalemate(c, r)
				}
				return
			}
			if cs.Kind == "deepwalk" {
				// a long-lived board: a search-like walk of a whole subtree by play and take-back on ONE
				// board (10^4..2*10^5 distinct positions), then an ordinary session continues on it
				for i := 0; i < cs.N; i++ {
					starts := gen.Starts()
					start := starts[[]int{0, 0, 1, 3, 4, 5, 8}[(cs.Idx+i)%7]]
					gm := newGameMon(c, gameFlags{history: true, results: true})
					t0, err := newTrack(0, zt0, start)
					if err != nil {
						continue
					}
					gm.tracks = []*track{t0}
					before := adapt.TakeSnap(t0.b)
					n, depth, last := 0, 1, 1
					for ; depth <= 6 && n < 150000 && last*40 < 2500000; depth++ {
						last = deepWalk(t0.b, depth)
						n += last
					}
					c.Count("deepwalk_pushes", n)
					c.Eval(1)
					if d := adapt.TakeSnap(t0.b).Diff(before); d != "" {
						c.Violate("history:deepwalk-restore", "after walking the whole depth-%d subtree by play and take-back (%d moves) the board differs: %s; start %q", depth, n, d, start.FEN())
					}
					t0.last = adapt.TakeSnap(t0.b)
					// first a pure shuffle (both sides undo their moves): the start position recurs at plies 4 and 8
					pure := gen.Bias{Capture: 0.0001, Check: 1, Promo: 0.0001, Castle: 0.0001, EP: 0.0001, Quiet: 1, PawnMove: 0.0001, Shuffle: 1}
					gm.continueGame(r, gameOpts{plies: 10, bias: pure, maxTracks: 1})
					o := gameOpts{plies: 120, bias: gen.Shuffly, popProb: 0.1, forkProb: 0.02, maxTracks: 3, scratch: 0.05}
					gm.continueGame(r, o)
					c.Distinct(gm.desc(t0))
				}
				return
			}
			for i := 0; i < cs.N; i++ {
				start, bias, plies := gameStart(r, i)
				if i%3 == 1 {
					bias = gen.Tactical
				}
				gm := newGameMon(c, gameFlags{history: true, hash: true, results: true})
				o := gameOpts{plies: plies + 50, bias: bias, popProb: 0.25, forkProb: 0.04, illegal: 0.1, maxTracks: 4, scratch: 0.05}
				if i%4 == 0 {
					o.popProb = 0.45
				}
				gm.runGame(r, zt0, start, o)
				c.Distinct(gm.desc(gm.tracks[0]) + gm.desc(gm.tracks[len(gm.tracks)-1]))
				if i == 0 && cs.Idx%16 == 0 {
					c.Sample(map[string]any{"start": start.FEN(), "tracks": len(gm.tracks), "final_line_of_track0": gm.desc(gm.tracks[0])})
				}
			}
		},
	})
}

// unbackedRight replaces the rook behind one of the castling rights by nothing or by another own piece, keeping the right.
func unbackedRight(r *rand.Rand, p ref.Pos) (ref.Pos, bool) {
	type fl struct {
		flag uint8
		rsq  int
		sign int8
	}
	var have []fl
	for _, f := range []fl{{ref.CastleWK, 7, 1}, {ref.CastleWQ, 0, 1}, {ref.CastleBK, 63, -1}, {ref.CastleBQ, 56, -1}} {
		if p.Cast&f.flag != 0 && p.B[f.rsq] == f.sign*ref.Rook {
			have = append(have, f)
		}
	}
	if len(have) == 0 {
		return p, false
	}
	f := have[r.Intn(len(have))]
	q := p
	q.B[f.rsq] = f.sign * []int8{0, 0, ref.Bishop, ref.Knight, ref.Queen}[r.Intn(5)]
	if q.InCheck(!q.White) {
		return p, false
	}
	if _, err := adapt.Position(q); err != nil {
		return p, false
	}
	return q, true
}

type forkOp struct {
	pop bool
	m   ref.Move
}

// concurrentForks: a board and its forks are used from different goroutines at the same time (the
// documented use of a fork); each must behave exactly as if it were alone.
func concurrentForks(c *fw.Ctx, r *rand.Rand, n int) {
	for i := 0; i < n; i++ {
		start, bias, _ := gameStart(r, i)
		h := gen.Playout(r, start, r.Intn(30), bias)
		build := func() *board.Board {
			b, err := adapt.Board(zt0, h.Start)
			if err != nil {
				return nil
			}
			for _, m := range h.Moves {
				if !adapt.Push(b, m) {
					return nil
				}
			}
			return b
		}
		b0 := build()
		if b0 == nil {
			continue
		}
		boards := []*board.Board{b0}
		for k := 1 + r.Intn(3); k > 0; k-- {
			boards = append(boards, boards[r.Intn(len(boards))].Fork())
		}
		// one script per board, drawn from the rules (never below the fork point)
		scripts := make([][]forkOp, len(boards))
		for j := range boards {
			g := ref.NewGameFrom(h.Start, h.Moves)
			base := len(g.Moves)
			for k := 20 + r.Intn(80); k > 0; k-- {
				ms := g.Cur.LegalMoves()
				if len(g.Moves) > base && (len(ms) == 0 || r.Intn(3) == 0) {
					g.Pop()
					scripts[j] = append(scripts[j], forkOp{pop: true})
					continue
				}
				if len(ms) == 0 {
					break
				}
				var prev *ref.Move
				if n := len(g.Moves); n >= 2 {
					prev = &g.Moves[n-2]
				}
				m := gen.Pick(r, &g.Cur, ms, gen.Shuffly, prev)
				g.Push(m)
				scripts[j] = append(scripts[j], forkOp{m: m})
			}
		}
		run := func(b *board.Board, script []forkOp) ([]adapt.Snap, string) {
			var out []adapt.Snap
			for _, op := range script {
				if op.pop {
					if _, ok := b.PopMove(); !ok {
						return out, "take-back refused"
					}
				} else if !adapt.Push(b, op.m) {
					return out, "legal move " + op.m.String() + " refused"
				}
				out = append(out, adapt.TakeSnap(b))
			}
			return out, ""
		}
		got := make([][]adapt.Snap, len(boards))
		errs := make([]string, len(boards))
		var wg sync.WaitGroup
		for j := range boards {
			wg.Add(1)
			go func(j int) {
				defer wg.Done()
				got[j], errs[j] = run(boards[j], scripts[j])
			}(j)
		}
		wg.Wait()
		c.Count("concurrent_sessions", 1)
		c.Distinct(fmt.Sprint(h.Start.FEN(), h.MoveStrs(), len(boards), len(scripts[0])))
		for j := range boards {
			alone := build()
			want, werr := run(alone, scripts[j])
			c.Eval(1)
			c.Count("concurrent_ops", len(scripts[j]))
			what := fmt.Sprintf("board %d of %d (0 = original) after history %q %v", j, len(boards), h.Start.FEN(), h.MoveStrs())
			if errs[j] != werr {
				c.Violate("concurrent:refused", "%s: %q when run beside the others, %q when run alone", what, errs[j], werr)
				continue
			}
			for k := range want {
				if k >= len(got[j]) {
					break
				}
				if d := got[j][k].Diff(want[k]); d != "" {
					c.Violate("concurrent:differs", "%s: after operation %d the board run beside the others differs from the same script run alone: %s", what, k, d)
					break
				}
			}
		}
	}
}

// deepWalk plays and takes back every line of the given depth on the board (like a search does).
func deepWalk(b *board.Board, depth int) int {
	if depth == 0 {
		return 0
	}
	n := 0
	for _, m := range b.Position().PseudoLegalMoves(b.Turn()) {
		if b.PushMove(m) {
			n += 1 + deepWalk(b, depth-1)
			b.PopMove()
		}
	}
	return n
}

// sensitivity: positions differing in exactly one component must hash differently (from scratch).
func sensitivity(c *fw.Ctx, r *rand.Rand, zt *board.ZobristTable, p ref.Pos) {
	pos, err := adapt.Position(p)
	if err != nil {
		return
	}
	turn := adapt.BColor(p.White)
	h0 := zt.Hash(pos, turn)
	c.Distinct(p.Key())
	probe := func(kind string, q ref.Pos) {
		qpos, err := adapt.Position(q)
		if err != nil {
			return
		}
		c.Eval(1)
		c.Count("sens_"+kind, 1)
		if h := zt.Hash(qpos, adapt.BColor(q.White)); h == h0 {
			c.Violate("hash:insensitive:"+kind, "positions %q and %q differ in %s only but hash equal (%016x)", p.Key(), q.Key(), kind, uint64(h))
		}
	}
	// side to move
	q := p
	q.White = !q.White
	probe("side", q)
	// each castling right toggled
	for _, f := range []uint8{ref.CastleWK, ref.CastleWQ, ref.CastleBK, ref.CastleBQ} {
		q = p
		q.Cast ^= f
		probe("castle", q)
	}
	// e.p. target removed / moved
	if p.EP >= 0 {
		q = p
		q.EP = -1
		probe("ep", q)
		q = p
		q.EP = ref.Sq((ref.File(p.EP)+1)%8, ref.Rank(p.EP))
		probe("ep", q)
	} else {
		q = p
		rank := 2
		if p.White {
			rank = 5
		}
		q.EP = ref.Sq(r.Intn(8), rank)
		probe("ep", q)
	}
	// one piece removed, added, recoloured, changed or moved — on every square for coverage of all key cells
	for sq := 0; sq < 64; sq++ {
		if p.B[sq] != 0 {
			q = p
			q.B[sq] = 0
			probe("piece", q)
			q = p
			q.B[sq] = -p.B[sq]
			probe("piece", q)
			q = p
			k := p.B[sq]
			if k < 0 {
				k = -k
			}
			nk := int8(1 + (int(k)+r.Intn(5))%6)
			if nk == k {
				nk = 1 + nk%6
			}
			if p.B[sq] < 0 {
				nk = -nk
			}
			q.B[sq] = nk
			probe("piece", q)
		} else if r.Intn(4) == 0 {
			q = p
			v := int8(1 + r.Intn(6))
			if r.Intn(2) == 0 {
				v = -v
			}
			q.B[sq] = v
			probe("piece", q)
		}
	}
}

// drawnThenStalemate: a game that is played on after an unclaimed draw (here: the half-move clock is past 100)
// reaches a stalemate, which is adjudicated on the board itself the way a search does it; the stalemating move
// is taken back. Everything but the (drawn) result must be as before the move, and play must continue exactly
// as on a twin board that never made the move: every legal move accepted, with the same outcome.
func drawnThenStalemate(c *fw.Ctx, r *rand.Rand) {
	for try := 0; try < 3000; try++ {
		var p ref.Pos
		p.EP = -1
		p.White = false
		p.Half = 100 + r.Intn(40)
		p.Full = 60 + r.Intn(60)
		corner := []int{0, 7, 56, 63}[r.Intn(4)]
		bk := corner
		if r.Intn(2) == 0 {
			bk = r.Intn(64)
		}
		p.B[bk] = -ref.King
		for _, v := range []int8{ref.King, []int8{ref.Queen, ref.Rook, ref.Queen}[r.Intn(3)], []int8{0, 0, ref.Pawn, ref.Bishop, ref.Knight}[r.Intn(5)]} {
			if v == 0 {
				continue
			}
			sq := r.Intn(64)
			if p.B[sq] != 0 || (v == ref.Pawn && (ref.Rank(sq) == 0 || ref.Rank(sq) == 7)) {
				continue
			}
			p.B[sq] = v
		}
		if p.KingSq(true) < 0 || p.InCheck(true) {
			continue
		}
		if k := p.KingSq(true); abs(ref.File(k)-ref.File(bk)) <= 1 && abs(ref.Rank(k)-ref.Rank(bk)) <= 1 {
			continue
		}
		if r.Intn(2) == 0 {
			p = p.Mirror()
		}
		// a first move b1 by the side to move, then a quiet stalemating move s by the other side
		var b1, st ref.Move
		found := false
		for _, m := range p.LegalMoves() {
			q := p.Apply(m)
			if m.Kind != ref.KNormal {
				continue
			}
			for _, m2 := range q.LegalMoves() {
				q2 := q.Apply(m2)
				if (m2.Kind == ref.KNormal || m2.Kind == ref.KPush) && len(q2.LegalMoves()) == 0 && !q2.InCheck(q2.White) && len(q.LegalMoves()) > 1 {
					b1, st, found = m, m2, true
				}
			}
		}
		if !found {
			continue
		}
		b, err := adapt.Board(zt0, p)
		twin, err2 := adapt.Board(zt0, p)
		if err != nil || err2 != nil || !adapt.Push(b, b1) || !adapt.Push(twin, b1) {
			return
		}
		c.Eval(1)
		if b.Result().Outcome != board.Draw {
			c.Violate("result:missed-fifty", "half-move clock %d after %v and the board is not drawn: %q", p.Half+1, b1, p.FEN())
			return
		}
		before := adapt.TakeSnap(b)
		if !adapt.Push(b, st) {
			c.Violate("game:push-refused", "legal move %v refused on a board drawn by the clock (play goes on after an unclaimed draw): %q after %v", st, p.FEN(), b1)
			return
		}
		res := b.AdjudicateNoLegalMoves()
		if res.Outcome != board.Draw || res.Reason != board.Stalemate {
			c.Violate("result:adjudicate-stalemate", "stalemate adjudicated as %v: %q after %v %v", res, p.FEN(), b1, st)
		}
		if _, ok := b.PopMove(); !ok {
			c.Violate("history:pop-refused", "take-back refused after an adjudicated stalemate: %q after %v %v", p.FEN(), b1, st)
			return
		}
		c.Count("drawn_then_stalemate_takebacks", 1)
		if d := adapt.TakeSnap(b).DiffNoResult(before); d != "" {
			c.Violate("history:pop-restore", "after taking back the stalemating move %v: %s; %q after %v", st, d, p.FEN(), b1)
		}
		cur := p.Apply(b1)
		for _, m := range cur.LegalMoves() {
			ok1, ok2 := adapt.Push(b, m), adapt.Push(twin, m)
			c.Eval(1)
			c.Count("drawn_then_stalemate_continuations", 1)
			if ok1 != ok2 {
				c.Violate("history:pop-continue", "after a stalemating move (adjudicated on the board) was taken back, move %v is accepted=%v, on a board that never made it accepted=%v: %q after %v, taken back %v", m, ok1, ok2, p.FEN(), b1, st)
			} else if ok1 {
				if d := adapt.TakeSnap(b).DiffNoResult(adapt.TakeSnap(twin)); d != "" {
					c.Violate("history:pop-continue", "after a stalemating move was taken back, play continues differently with %v: %s; %q after %v", m, d, p.FEN(), b1)
				}
				if x, y := b.Result().Outcome, twin.Result().Outcome; x != y {
					c.Violate("history:pop-continue", "after a stalemating move was taken back, %v gives outcome %v, on a board that never made it %v: %q after %v", m, x, y, p.FEN(), b1)
				}
			}
			if ok1 {
				b.PopMove()
			}
			if ok2 {
				twin.PopMove()
			}
		}
		return
	}
}

func abs(x int) int {
	if x < 0 {
		return -x
	}
	return x
}
