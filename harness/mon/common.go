// Package mon contains one monitor per property.
package mon

import (
	"fmt"
	"math/rand"
	"sync"
	"time"

	"github.com/herohde/morlock/pkg/board"

	"verif/adapt"
	"verif/fw"
	"verif/gen"
	"verif/ref"
)

var (
	oracleOnce sync.Once
	oracleErr  error
	oracleN    uint64
)

// validateOracle checks the reference rules implementation against published perft numbers.
// A failure makes the run inconclusive (the oracle, not the system under test, is broken).
func validateOracle(c *fw.Ctx) error {
	oracleOnce.Do(func() {
		n, bad := ref.SelfValidate(3)
		oracleN = n
		if bad != "" {
			oracleErr = fmt.Errorf("reference oracle fails published perft for %s", bad)
		}
	})
	c.Note("oracle_selfcheck", fmt.Sprintf("perft depth<=3 on 6 published positions: %d nodes, ok=%v", oracleN, oracleErr == nil))
	return oracleErr
}

func minutes(q, t int) func(string) time.Duration {
	return func(tier string) time.Duration {
		if tier == "thorough" {
			return time.Duration(t) * time.Minute
		}
		return time.Duration(q) * time.Minute
	}
}

// pick returns q for the quick tier and t for thorough.
func pick(tier string, q, t int) int {
	if tier == "thorough" {
		return t
	}
	return q
}

// mkCases builds n cases of one kind with derived seeds, appending to list.
func mkCases(list []fw.Case, kind string, n int, seed int64, size int) []fw.Case {
	for i := 0; i < n; i++ {
		list = append(list, fw.Case{Idx: len(list), Kind: kind, Seed: fw.Mix(seed, int64(len(kind)), int64(i), hashStr(kind)), N: size})
	}
	return list
}

func hashStr(s string) int64 {
	var h int64 = 1469598103934665603
	for i := 0; i < len(s); i++ {
		h ^= int64(s[i])
		h *= 1099511628211
	}
	return h & 0x7fffffffffffffff
}

// bbOf converts ref squares to a morlock bitboard.
func bbOf(sqs []int) board.Bitboard {
	var bb board.Bitboard
	for _, s := range sqs {
		bb |= board.BitMask(adapt.BSq(s))
	}
	return bb
}

// randomHist draws one history from the mixed corpus.
func randomHist(r *rand.Rand, maxPlies int) gen.Hist {
	return gen.Corpus(r, 1, maxPlies)[0]
}

var zt0 = board.NewZobristTable(0)
