package mon

import (
	"context"
	"fmt"
	"math/rand"
	"strings"

	"github.com/herohde/morlock/pkg/engine"

	"github.com/herohde/morlock/pkg/board"
	"github.com/herohde/morlock/pkg/eval"
	"github.com/herohde/morlock/pkg/search"

	"verif/adapt"
	"verif/fw"
	"verif/gen"
	"verif/ref"
)

// C11 — the transposition table is transparent.

// recTable wraps a table and records what the search stores.
type recTable struct {
	search.TranspositionTable
	b *board.Board // board being searched (set by the harness before each search)

	every   int // sample every n-th exact write
	writes  int
	exact   int
	reads   int
	hits    int
	samples []ttSample
	// cancelled, if set, tells whether the search's context is already cancelled (C12)
	cancelled        func() bool
	postCancelWrites int
}

type ttSample struct {
	fork       *board.Board
	depth      int
	score      eval.Score
	postCancel bool
}

func (t *recTable) Read(h board.ZobristHash) (search.Bound, int, eval.Score, board.Move, bool) {
	t.reads++
	bd, d, s, m, ok := t.TranspositionTable.Read(h)
	if ok {
		t.hits++
	}
	return bd, d, s, m, ok
}

func (t *recTable) Write(h board.ZobristHash, bound search.Bound, ply, depth int, score eval.Score, move board.Move) bool {
	t.writes++
	post := t.cancelled != nil && t.cancelled()
	if post {
		t.postCancelWrites++
	}
	if bound == search.ExactBound {
		t.exact++
		if t.b != nil && t.b.Hash() == h && (post || (t.every > 0 && t.exact%t.every == 0)) && len(t.samples) < 64 {
			t.samples = append(t.samples, ttSample{fork: t.b.Fork(), depth: depth, score: score, postCancel: post})
		}
	}
	return t.TranspositionTable.Write(h, bound, ply, depth, score, move)
}

// newTable builds one of the table variants by index.
func newTable(ctx context.Context, variant int) (search.TranspositionTable, string) {
	switch variant % 7 {
	case 0:
		return search.NewTranspositionTable(ctx, 32), "32B(1 slot)"
	case 1:
		return search.NewTranspositionTable(ctx, 64), "64B"
	case 2:
		return search.NewTranspositionTable(ctx, 1<<10), "1KiB"
	case 3:
		return search.NewTranspositionTable(ctx, 64<<10), "64KiB"
	case 4:
		return search.NewTranspositionTable(ctx, 1<<20), "1MiB"
	case 5:
		return search.NewMinDepthTranspositionTable(1)(ctx, 1<<20), "1MiB(min depth 1)"
	default:
		return search.NewTranspositionTable(ctx, 256<<10), "256KiB"
	}
}

// repetitionFree certifies that all positions of the history are distinct.
func repetitionFree(h gen.Hist) bool {
	seen := map[string]bool{}
	p := h.Start
	seen[p.Key()] = true
	for _, m := range h.Moves {
		p = p.Apply(m)
		if seen[p.Key()] {
			return false
		}
		seen[p.Key()] = true
	}
	return true
}

func c11Root(r *rand.Rand, i int) (gen.Hist, string) {
	var h gen.Hist
	tag := ""
	for {
		switch i % 6 {
		case 0:
			h, tag = gen.Hist{Start: gen.TacticOK(r, 8)}, "matingnet"
		case 1:
			h, tag = gen.Hist{Start: smallMaterial(r)}, "sparse"
		case 2:
			starts := gen.Starts()
			h, tag = gen.Playout(r, starts[r.Intn(len(starts))], r.Intn(16), gen.Neutral), "middlegame+history"
		case 3:
			h, tag = gen.Hist{Start: gen.SynthOK(r)}, "synthetic"
		case 4:
			h, tag = gen.Hist{Start: gen.TacticOK(r, 6)}, "promotion"
		default:
			h, tag = gen.Playout(r, gen.TacticOK(r, r.Intn(8)), r.Intn(5), gen.Tactical), "tactic+history"
		}
		fp := h.Final()
		if repetitionFree(h) && fp.Half < 80 {
			return h, tag
		}
		// clocks too high or repeated position: make the root history-free
		h = gen.Hist{Start: fp}
		h.Start.Half = 0
		return h, tag
	}
}

// ttSafeDepth caps the depth so that no threefold repetition can arise inside the tree (the scope of C11).
// The history is repetition-free, so a third occurrence needs a history position (or the root) to occur twice
// more on one line, or a new position three times; two occurrences on a line are at least four plies apart.
// With three or more plies of history some earlier position may be one move away (the mover's opponent shuffled
// back, or triangulated, and the mover steps back): second occurrence at ply 1, third at ply 5 - so depth 4 is
// the limit. With two plies the start position is two plies away (third occurrence at ply 6), with one ply or
// none the earliest is ply 7 or 8.
func ttSafeDepth(h gen.Hist, depth int) int {
	limit := 6
	switch n := len(h.Moves); {
	case n >= 3:
		limit = 4
	case n == 2:
		limit = 5
	}
	if depth > limit {
		return limit
	}
	return depth
}

// abValue is the no-table full-window value (alpha-beta itself is validated against the reference by C03).
func abValue(s search.Search, b *board.Board, depth int) (eval.Score, []board.Move, uint64, error) {
	n, sc, pv, err := s.Search(budgetCtx(), fullWindow(), b, depth)
	return sc, pv, n, err
}

func sameScore(a, b eval.Score) bool { return !a.Less(b) && !b.Less(a) && a.Type == b.Type }

// checkTTSearch runs one search with the table and compares it with the no-table search.
func checkTTSearch(c *fw.Ctx, s search.Search, h gen.Hist, depth int, tt *recTable, sctx *search.Context, what string) (pv []board.Move, ok bool) {
	return checkTTSearchWant(c, s, h, depth, tt, sctx, what, nil)
}

// checkTTSearchWant is checkTTSearch with an optional precomputed table-less root value.
func checkTTSearchWant(c *fw.Ctx, s search.Search, h gen.Hist, depth int, tt *recTable, sctx *search.Context, what string, cached *eval.Score) (pv []board.Move, ok bool) {
	b, good := boardOf(h)
	if !good {
		return nil, false
	}
	var want eval.Score
	if cached != nil {
		want = *cached
	} else {
		nb, _ := boardOf(h)
		var err error
		want, _, _, err = abValue(s, nb, depth)
		if err != nil {
			if err == search.ErrHalted {
				c.Inconclusive("table-less search exceeded the poll budget: %s", what)
			}
			return nil, false
		}
	}
	tt.b = b
	before := adapt.TakeSnap(b)
	moveless := legalCount(b) == 0
	_, score, pv, err := s.Search(budgetCtx(), sctx, b, depth)
	tt.b = nil
	if err == search.ErrHalted {
		c.Inconclusive("search exceeded the poll budget: %s", what)
		return nil, false
	}
	c.Eval(1)
	c.Count("tt_searches", 1)
	if err != nil {
		c.Violate("tt:error", "search with table failed: %v: %s", err, what)
		return nil, false
	}
	handBack(c, "tt:handback", before, b, moveless, what)
	full := sctx.Alpha == eval.NegInfScore && sctx.Beta == eval.InfScore
	if full {
		if !sameScore(score, want) {
			c.Violate("tt:score", "with the table the root score is %v, without it %v: %s", score, want, what)
			return pv, false
		}
		if len(pv) == 0 && !moveless && depth > 0 { // (a depth-0 search evaluates the root and has no move to report)
			c.Violate("tt:pv-empty", "empty PV with the table although the root has legal moves: %s", what)
			return pv, false
		}
		if len(pv) > 0 {
			// first move must be a best move: its no-table value equals the root value
			fp := h.Final()
			t := adapt.TupleOfB(pv[0])
			m, found := fp.FindMove(t.From, t.To, t.Promo)
			if !found {
				c.Violate("tt:pv-illegal", "PV with the table starts with %v, not legal in %q: %s", t, fp.FEN(), what)
				return pv, false
			}
			cb, _ := boardOf(h)
			adapt.Push(cb, m)
			var cv eval.Score
			if cb.Result().Outcome == board.Draw {
				cv = eval.ZeroScore
			} else {
				cv, _, _, _ = abValue(s, cb, depth-1)
			}
			up := eval.IncrementMateDistance(cv).Negate()
			if !sameScore(up, want) {
				c.Violate("tt:pv-first", "PV with the table starts with %v worth %v, the root value is %v: %s", m, up, want, what)
			}
		}
	}
	return pv, true
}

// verifySamples checks sampled exact entries against the true value of their position at their depth.
func verifySamples(c *fw.Ctx, s search.Search, tt *recTable, what string) {
	for _, sm := range tt.samples {
		var want eval.Score
		if sm.fork.Result().Outcome == board.Draw {
			continue // out of scope: no draws inside the tree in this workload; skip defensively
		}
		want, _, _, err := abValue(s, sm.fork, sm.depth)
		if err != nil {
			continue
		}
		c.Eval(1)
		c.Count("exact_entries_verified", 1)
		if !sameScore(want, sm.score) {
			key := "tt:exact-entry"
			if sm.postCancel {
				key = "halt:post-cancel-write"
			}
			fp := adapt.RefOfBoard(sm.fork)
			c.Violate(key, "exact entry stored for %q at depth %d says %v, the true value is %v: %s", fp.FEN(), sm.depth, sm.score, want, what)
		}
	}
	tt.samples = nil
}

// engineTransparency: through the Engine API (Reset / Move / SetNoise / SetHash / Analyze) an engine with a
// hash table must report the same score per iteration as the same engine without one, across games
// and option changes. Only noise-free analyses are compared (with noise on, the draw order depends on pruning).
func engineTransparency(c *fw.Ctx, r *rand.Rand, idx int) {
	ctx := context.Background()
	rc := &recipes[[]int{0, 3}[r.Intn(2)]]
	hash := uint([]int{1, 1, 2, 4}[r.Intn(4)])
	et := rc.newEngine(ctx, engine.Options{Hash: hash}, 0, nil)
	e0 := rc.newEngine(ctx, engine.Options{Hash: 0}, 0, nil)
	games := 2 + r.Intn(3)
	var prevRoot gen.Hist
	prevTag := ""
	for g := 0; g < games; g++ {
		noise := uint([]int{0, 0, 60}[r.Intn(3)])
		if g == games-1 {
			noise = 0
		}
		et.SetNoise(noise)
		e0.SetNoise(noise)
		if r.Intn(4) == 0 {
			et.SetHash(hash) // re-stating the same size must not matter
		}
		h, tag := c11Root(r, idx+g)
		if g > 0 && r.Intn(2) == 0 {
			h, tag = prevRoot, prevTag+" (same game again)" // the same game after a reset, possibly under other options
		}
		prevRoot, prevTag = h, tag
		b, ok := boardOf(h)
		if !ok {
			continue
		}
		n0, n1 := branching(b, 0)
		depth := depthFor(n0, n1, 2500, 4)
		what := fmt.Sprintf("engine %s hash %d MB, game %d of %d (noise %d) depth %d %s (%s)", rc.name, hash, g+1, games, noise, depth, histDesc(h), tag)
		plies := 1 + r.Intn(3)
		cur := h
		for k := 0; k < plies; k++ {
			if !repetitionFree(cur) {
				break
			}
			st, _, err1 := analyze(ctx, et, cur, depth)
			s0, _, err2 := analyze(ctx, e0, cur, depth)
			if err1 != nil || err2 != nil {
				break
			}
			c.Eval(1)
			c.Count("engine_tt_analyses", 1)
			if noise == 0 {
				c.Count("engine_tt_compared", 1)
				if d := streamScoreDiff(st, s0); d != "" {
					c.Violate("tt:engine-score", "engine with hash table differs from the same engine without: %s: %s", d, what)
					return
				}
			}
			fp := cur.Final()
			ms := fp.LegalMoves()
			if len(ms) == 0 {
				break
			}
			cur = gen.Hist{Start: cur.Start, Moves: append(append([]ref.Move{}, cur.Moves...), ms[(k*7+len(ms)/2)%len(ms)])}
		}
		c.Distinct(what)
	}
}

// streamScoreDiff compares two PV streams by score per depth (moves and nodes legitimately differ with a table).
func streamScoreDiff(a, b []searchResult) string {
	bm := map[string]string{}
	for _, x := range b {
		d := x.score[:strings.IndexByte(x.score, ':')]
		bm[d] = x.score
	}
	for _, x := range a {
		d := x.score[:strings.IndexByte(x.score, ':')]
		if o, ok := bm[d]; ok && o != x.score {
			return fmt.Sprintf("iteration %s: %s with table, %s without", d, x.score, o)
		}
	}
	if len(a) > 0 && len(b) > 0 && a[len(a)-1].score != b[len(b)-1].score {
		return fmt.Sprintf("final iteration: %s with table, %s without", a[len(a)-1].score, b[len(b)-1].score)
	}
	return ""
}

func runC11(c *fw.Ctx, cs fw.Case) {
	r := cs.Rand()
	ctx := context.Background()
	if cs.Kind == "engine" {
		for i := 0; i < cs.N; i++ {
			engineTransparency(c, r, cs.Idx*100+i)
		}
		return
	}
	if cs.Kind == "console" {
		for i := 0; i < cs.N; i++ {
			consoleTransparency(c, r, cs.Idx*100+i)
		}
		return
	}
	budget := 6000.0
	if !c.Quick() {
		budget = 40000
	}
	var pd []searchCfg
	for _, cf := range searchCfgs {
		if cf.posDetermined {
			pd = append(pd, cf)
		}
	}
	for i := 0; i < cs.N; i++ {
		h, tag := c11Root(r, i+cs.Idx)
		cfg := pd[r.Intn(len(pd))]
		b, ok := boardOf(h)
		if !ok {
			continue
		}
		if !quietTame(h, cfg) {
			cfg = pd[r.Intn(2)]
		}
		n0, n1 := branching(b, cfg.limit)
		bud := budget
		if cfg.quiet {
			bud /= 8
		}
		depth := depthFor(n0, n1, bud, 6)
		depth = ttSafeDepth(h, depth)
		inner, tname := newTable(ctx, r.Intn(7))
		tt := &recTable{TranspositionTable: inner, every: 1 + r.Intn(40)}
		s, _, _ := cfg.mk()
		seq := r.Intn(5)
		what := fmt.Sprintf("config %s depth %d table %s sequence %d %s (%s)", cfg.name, depth, tname, seq, histDesc(h), tag)
		c.Distinct(what)
		c.Count("seq_"+fmt.Sprint(seq), 1)
		full := func() *search.Context {
			return &search.Context{Alpha: eval.NegInfScore, Beta: eval.InfScore, TT: tt}
		}
		switch seq {
		case 0: // iterative deepening 1..d on one table
			for d := 1; d <= depth; d++ {
				if _, ok := checkTTSearch(c, s, h, d, tt, full(), what+fmt.Sprintf(" iteration %d", d)); !ok {
					break
				}
			}
		case 1: // the same search twice (and a third time)
			for k := 0; k < 3; k++ {
				if _, ok := checkTTSearch(c, s, h, depth, tt, full(), what+fmt.Sprintf(" run %d", k+1)); !ok {
					break
				}
			}
		case 2: // successive positions of a game, each searched on the shared table
			g := h
			plies := 3 + r.Intn(6)
			for k := 0; k < plies; k++ {
				fp := g.Final()
				if !repetitionFree(g) || fp.Half+depth >= 100 {
					break
				}
				d := depth
				if r.Intn(3) == 0 && d > 1 {
					d--
				}
				d = ttSafeDepth(g, d)
				pv, ok := checkTTSearch(c, s, g, d, tt, full(), what+fmt.Sprintf(" game ply %d", k))
				if !ok || len(pv) == 0 {
					break
				}
				t := adapt.TupleOfB(pv[0])
				m, found := fp.FindMove(t.From, t.To, t.Promo)
				if !found {
					break
				}
				if r.Intn(4) == 0 { // the opponent does not always play the expected move
					ms := fp.LegalMoves()
					m = ms[r.Intn(len(ms))]
				}
				g = gen.Hist{Start: g.Start, Moves: append(append([]ref.Move{}, g.Moves...), m)}
				c.Count("game_plies", 1)
			}
		case 3: // aspiration pattern: narrowed windows first, then the full window on the same table
			nb, _ := boardOf(h)
			v, _, _, err := abValue(s, nb, depth)
			if err != nil {
				continue
			}
			for k := 0; k < 3; k++ {
				var a, bb eval.Score
				if v.Type == eval.Heuristic {
					x := float32(v.Pawns)
					off := []float32{-2, -0.5, 0.125, 1, 3}[r.Intn(5)]
					a, bb = eval.HeuristicScore(eval.Pawns(x+off)), eval.HeuristicScore(eval.Pawns(x+off+[]float32{0.125, 1, 4}[r.Intn(3)]))
				} else {
					a, bb = eval.HeuristicScore(-1), eval.HeuristicScore(1)
				}
				if r.Intn(3) == 0 { // mate-valued bounds: (M1, +inf), (-inf, M-1), (M3, M1), (h, M2) ...
					cands := [][2]eval.Score{
						{eval.MateInXScore(1), eval.InfScore}, {eval.NegInfScore, eval.MateInXScore(-1)},
						{eval.MateInXScore(3), eval.MateInXScore(1)}, {eval.MateInXScore(-1), eval.MateInXScore(-3)},
						{a, eval.MateInXScore(2)}, {eval.MateInXScore(-2), bb}, {eval.MateInXScore(int8(2 + r.Intn(5))), eval.InfScore},
					}
					w := cands[r.Intn(len(cands))]
					a, bb = w[0], w[1]
				}
				sctx := &search.Context{Alpha: a, Beta: bb, TT: tt}
				checkTTSearch(c, s, h, depth, tt, sctx, what+" narrowed window")
				c.Count("narrow_window_searches", 1)
			}
			checkTTSearch(c, s, h, depth, tt, full(), what+" full window after narrowed windows")
		default: // deepening from a sibling position first (table warmed by a neighbouring root)
			fp := h.Final()
			ms := fp.LegalMoves()
			if len(ms) > 0 {
				m := ms[r.Intn(len(ms))]
				sib := gen.Hist{Start: h.Start, Moves: append(append([]ref.Move{}, h.Moves...), m)}
				if repetitionFree(sib) {
					checkTTSearch(c, s, sib, ttSafeDepth(sib, depth), tt, full(), what+" (sibling first)")
				}
			}
			checkTTSearch(c, s, h, depth, tt, full(), what)
			if depth > 1 {
				checkTTSearch(c, s, h, depth-1, tt, full(), what+" (shallower afterwards)")
			}
		}
		verifySamples(c, s, tt, what)
		c.Count("tt_reads", tt.reads)
		c.Count("tt_hits", tt.hits)
		c.Count("tt_writes", tt.writes)
		if used := inner.Used(); used < 0 || used > 1 {
			c.Violate("tt:used-range", "Used() = %v after sequential searches: %s", used, what)
		}
		if i == 0 && cs.Idx%16 == 0 {
			c.Sample(map[string]any{"config": cfg.name, "depth": depth, "table": tname, "sequence": seq, "start": h.Start.FEN(), "moves": h.MoveStrs()})
		}
	}
}

func init() {
	fw.Register(&fw.Monitor{
		ID:          "C11",
		Level:       "exploration",
		Technique:   "runtime differential monitor: every search with a (recording) transposition table compared with the same search without table; sampled exact entries re-derived by table-less search on a fork taken at write time",
		Rule:        "position-determined configurations (Material, hash, BERNSTEIN evaluators; full, plausible-move, no-under-promotion exploration; static and captures-quiescence leaves) on repetition-free roots with clock < 80, depth <= 4 / 5 / 6 for histories of >= 3 / 2 / <= 1 plies (below the first ply at which a third occurrence can arise), table variants 32 B (1 slot) .. 1 MiB and the engine's min-depth wrapper; search sequences on one table: iterative deepening, same search 3x, successive positions of a game, narrowed windows then full window, sibling-first; console: the same console-driver session (reset + moves, analyze d, undo, analyze d+1, moves) on an engine with and without hash table: same scores per depth, same table-less per-move breakdown; compared: root score, non-empty PV whose first move is a best move, sampled ExactBound writes vs true value; distinct = distinct (configuration, depth, table, sequence, history)",
		Assumptions: []string{"table-less alpha-beta is the reference here; it is itself checked against the independent minimax by C03", "scope as the property states: position-determined evaluation, no repetition / fifty-move draw reachable inside the tree (roots certified repetition-free by the rules oracle; depth <= 4 with three or more plies of history, <= 5 with two, <= 6 otherwise; clock + depth < 100)"},
		Setup:       validateOracle,
		Timeout:     minutes(15, 120),
		Cases: func(tier string, seed int64) []fw.Case {
			l := mkCases(nil, "sequences", 64, seed, pick(tier, 14, 250))
			l = mkCases(l, "console", 8, seed, pick(tier, 5, 100))
			return mkCases(l, "engine", 16, seed, pick(tier, 3, 60))
		},
		Floors: func(string) map[string]int64 {
			return map[string]int64{"tt_searches": 1500, "tt_hits": 5000, "exact_entries_verified": 1000, "game_plies": 100, "narrow_window_searches": 100, "engine_tt_compared": 40, "console_analyses": 80, "console_undo_then_deeper": 15}
		},
		Run: runC11,
	})
}
