package mon

import (
	"context"

	"github.com/herohde/morlock/cmd/bernstein/bernstein"
	"github.com/herohde/morlock/cmd/sargon/sargon"
	"github.com/herohde/morlock/cmd/turochamp/turochamp"
	"github.com/herohde/morlock/pkg/engine"
	"github.com/herohde/morlock/pkg/eval"
	"github.com/herohde/morlock/pkg/search"
)

// Engine recipes: the search + evaluator + exploration + book wiring of the four cmd/*/main.go,
// reproduced from exported constructors.

type recipe struct {
	name string
	// build returns the root search; wrap lets a monitor interpose on the static evaluator.
	build func(wrap func(eval.Evaluator) eval.Evaluator) search.Search
	opts  engine.Options
	table search.TranspositionTableFactory
	book  func() engine.Book
	// positionDetermined: evaluator depends on the position only (C11 scope)
	positionDetermined bool
}

func idWrap(e eval.Evaluator) eval.Evaluator { return e }

var recipes = []recipe{
	{
		name: "morlock",
		build: func(wrap func(eval.Evaluator) eval.Evaluator) search.Search {
			return search.AlphaBeta{Eval: search.Leaf{Eval: wrap(eval.Material{})}}
		},
		opts:               engine.Options{Hash: 64},
		table:              search.NewMinDepthTranspositionTable(1),
		positionDetermined: true,
	},
	{
		name: "turochamp",
		build: func(wrap func(eval.Evaluator) eval.Evaluator) search.Search {
			return search.AlphaBeta{
				Eval: search.Quiescence{
					Explore: turochamp.ConsiderableMovesOnly,
					Eval:    search.Leaf{Eval: wrap(turochamp.Eval{})},
				},
			}
		},
		opts: engine.Options{Depth: 2, Noise: 10},
	},
	{
		name: "sargon",
		build: func(wrap func(eval.Evaluator) eval.Evaluator) search.Search {
			points := &sargon.Points{}
			return sargon.Hook{
				Eval: search.AlphaBeta{
					Explore: sargon.SkipUnderPromotions,
					Eval: sargon.OnePlyIfChecked{
						Leaf: search.Leaf{Eval: wrap(points)},
					},
				},
				Hook: points,
			}
		},
		opts: engine.Options{Depth: 1, Noise: 10},
		book: func() engine.Book { return sargon.NewBook() },
	},
	{
		name: "bernstein",
		build: func(wrap func(eval.Evaluator) eval.Evaluator) search.Search {
			return search.AlphaBeta{
				Explore: bernstein.PlausibleMoveTable{Limit: 7}.Explore,
				Eval:    search.Leaf{Eval: wrap(bernstein.Eval{Factor: 20})},
			}
		},
		opts:               engine.Options{Depth: 4},
		book:               func() engine.Book { return bernstein.NewBook() },
		positionDetermined: true,
	},
}

func recipeByName(n string) *recipe {
	for i := range recipes {
		if recipes[i].name == n {
			return &recipes[i]
		}
	}
	return nil
}

// newEngine builds an engine from a recipe with overridden options.
func (rc *recipe) newEngine(ctx context.Context, opts engine.Options, zseed int64, wrap func(eval.Evaluator) eval.Evaluator) *engine.Engine {
	if wrap == nil {
		wrap = idWrap
	}
	eo := []engine.Option{engine.WithOptions(opts), engine.WithZobrist(zseed)}
	if rc.table != nil {
		eo = append(eo, engine.WithTable(rc.table))
	}
	return engine.New(ctx, rc.name, "verif", rc.build(wrap), eo...)
}
