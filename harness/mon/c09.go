package mon

import (
	"fmt"
	"math"

	"github.com/herohde/morlock/pkg/eval"

	"verif/fw"
)

// C09 — scores form a total order that negation reverses.

// rank is the independent statement of the order:
// lost < being mated sooner < being mated later < heuristic (numeric) < mating later < mating sooner < won.
func scoreRank(s eval.Score) (int, float64) {
	switch s.Type {
	case eval.NegInf:
		return 0, 0
	case eval.MateInX:
		if s.Mate < 0 {
			return 1, -float64(s.Mate) // |k|: sooner (small) is lower
		}
		return 3, -float64(s.Mate) // later (large k) is lower
	case eval.Heuristic:
		return 2, float64(s.Pawns)
	case eval.Inf:
		return 4, 0
	}
	return -1, 0
}

func rankLess(a, b eval.Score) bool {
	ca, ka := scoreRank(a)
	cb, kb := scoreRank(b)
	if ca != cb {
		return ca < cb
	}
	return ka < kb
}

func scoreCore() []eval.Score {
	var l []eval.Score
	l = append(l, eval.NegInfScore, eval.InfScore)
	for k := -128; k <= 127; k++ {
		if k != 0 {
			l = append(l, eval.MateInXScore(int8(k)))
		}
	}
	reps := []float32{0, float32(math.Copysign(0, -1)), math.SmallestNonzeroFloat32, -math.SmallestNonzeroFloat32, 1e-38, -1e-38,
		1e-6, -1e-6, 0.001, -0.001, 0.01, -0.01, 0.125, -0.125, 0.25, -0.25, 0.5, -0.5, 1, -1, 1.5, -1.5, 3, -3, 9, -9, 100, -100, 103, -103,
		127, -127, 128, -128, 1e6, -1e6, math.MaxFloat32, -math.MaxFloat32, float32(math.Inf(1)), float32(math.Inf(-1))}
	for _, f := range reps {
		l = append(l, eval.HeuristicScore(eval.Pawns(f)))
		if !math.IsInf(float64(f), 0) {
			n := math.Nextafter32(f, float32(math.Inf(1)))
			l = append(l, eval.HeuristicScore(eval.Pawns(n)))
		}
	}
	return l
}

// specialKey names the representational edge a violation is attributable to, if any.
func specialKey(op string, a, b eval.Score) string {
	for _, s := range []eval.Score{a, b} {
		if s.Type != eval.MateInX {
			continue
		}
		switch op {
		case "negate":
			if s.Mate == -128 {
				return "score=M-128 op=negate"
			}
		case "increment":
			if s.Mate == 127 {
				return "score=M127 op=increment"
			}
			if s.Mate == -128 {
				return "score=M-128 op=increment"
			}
		}
	}
	return ""
}

func checkPair(c *fw.Ctx, a, b eval.Score) {
	c.Eval(1)
	want := rankLess(a, b)
	if got := a.Less(b); got != want {
		c.Violate("order:less", "Less(%v,%v)=%v, the order says %v", a, b, got, want)
	}
	// negation reverses: a<b exactly when -b < -a
	if got := b.Negate().Less(a.Negate()); got != a.Less(b) {
		key := specialKey("negate", a, b)
		if key == "" {
			key = "order:negate-reverses"
		}
		c.Violate(key, "%v<%v is %v but -(%v)<-(%v) is %v", a, b, a.Less(b), b, a, got)
	}
	// adding a ply never changes the relative order
	ia, ib := eval.IncrementMateDistance(a), eval.IncrementMateDistance(b)
	if got := ia.Less(ib); got != a.Less(b) {
		key := specialKey("increment", a, b)
		if key == "" {
			key = "order:increment"
		}
		c.Violate(key, "%v<%v is %v but after adding a ply %v<%v is %v", a, b, a.Less(b), ia, ib, got)
	}
	mx, mn := eval.Max(a, b), eval.Min(a, b)
	if (mx != a && mx != b) || mx.Less(a) || mx.Less(b) {
		c.Violate("order:max", "Max(%v,%v)=%v", a, b, mx)
	}
	if (mn != a && mn != b) || a.Less(mn) || b.Less(mn) {
		c.Violate("order:min", "Min(%v,%v)=%v", a, b, mn)
	}
}

func checkOne(c *fw.Ctx, a eval.Score) {
	c.Eval(1)
	if a.Less(a) {
		c.Violate("order:irreflexive", "%v < itself", a)
	}
	if nn := a.Negate().Negate(); nn != a {
		key := specialKey("negate", a, a)
		if key == "" {
			key = "order:involution"
		}
		c.Violate(key, "-(-(%v)) = %v", a, nn)
	}
}

func init() {
	fw.Register(&fw.Monitor{
		ID:          "C09",
		Level:       "exploration",
		Technique:   "runtime oracle over an enumerated score domain: every pair (and triples) compared with an independent rank function",
		Rule:        "core domain = lost, won, mate k for all 255 non-zero int8 k, ~110 representative float32 values incl. +-0, subnormals, neighbours, +-MaxFloat32, +-Inf; all ordered pairs of the core are checked (Less vs rank function, negation reversal, increment invariance, Max/Min), all triples of the decided/mate sub-domain for transitivity (thorough; sampled in quick), plus random float32 bit patterns against the core; constructors keep the value they are given (20 float32 edge values pairwise, all mate distances); distinct = distinct ordered pairs",
		Assumptions: []string{"NaN is not a score (C20 keeps evaluations finite)"},
		Exhaustive:  func(string) bool { return true },
		Workers:     16,
		Timeout:     minutes(5, 30),
		Cases: func(tier string, seed int64) []fw.Case {
			var l []fw.Case
			n := len(scoreCore())
			for i := 0; i < n; i += 8 {
				l = append(l, fw.Case{Idx: len(l), Kind: "pairs", N: i})
			}
			l = mkCases(l, "random", 16, seed, pick(tier, 1500, 200000))
			l = mkCases(l, "triples", 16, seed, pick(tier, 200000, 0))
			if tier == "thorough" {
				for i := 0; i < 257; i += 4 {
					l = append(l, fw.Case{Idx: len(l), Kind: "alltriples", N: i})
				}
			}
			return l
		},
		Floors: func(string) map[string]int64 {
			return map[string]int64{"pairs": 100000, "triples": 100000, "constructor_checks": 200}
		},
		Run: func(c *fw.Ctx, cs fw.Case) {
			core := scoreCore()
			switch cs.Kind {
			case "pairs":
				for i := cs.N; i < cs.N+8 && i < len(core); i++ {
					checkOne(c, core[i])
					for j := range core {
						checkPair(c, core[i], core[j])
						c.DistinctHash(uint64(i)<<20 | uint64(j))
						c.Count("pairs", 1)
					}
				}
				if cs.N == 0 {
					c.Sample(map[string]any{"pair": []string{core[3].String(), core[200].String()}, "less": core[3].Less(core[200])})
					checkConstructors(c)
				}
			case "random":
				r := cs.Rand()
				for i := 0; i < cs.N; i++ {
					f := math.Float32frombits(r.Uint32())
					if f != f {
						continue
					}
					a := eval.HeuristicScore(eval.Pawns(f))
					checkOne(c, a)
					for j := range core {
						checkPair(c, a, core[j])
						checkPair(c, core[j], a)
						c.Count("pairs", 2)
					}
					g := math.Float32frombits(r.Uint32())
					if g == g {
						checkPair(c, a, eval.HeuristicScore(eval.Pawns(g)))
					}
					c.DistinctHash(uint64(math.Float32bits(f)) | 1<<40)
				}
			case "triples":
				r := cs.Rand()
				for i := 0; i < cs.N; i++ {
					a, b, d := core[r.Intn(len(core))], core[r.Intn(len(core))], core[r.Intn(len(core))]
					triple(c, a, b, d)
				}
			case "alltriples":
				dec := core[:257]
				for i := cs.N; i < cs.N+4 && i < len(dec); i++ {
					for j := range dec {
						for k := range dec {
							triple(c, dec[i], dec[j], dec[k])
						}
					}
				}
			}
		},
	})
}

// checkConstructors: the order is stated over the values handed to the constructors ("every heuristic value,
// numerically ordered", "mating sooner"), so a constructor must not fold two of them into one score: the score
// built from f carries exactly f (bit for bit), the one built from k exactly k.
func checkConstructors(c *fw.Ctx) {
	reps := []float32{0, float32(math.Copysign(0, -1)), math.SmallestNonzeroFloat32, -math.SmallestNonzeroFloat32, 1e-6, -1e-6, 0.5, -0.5, 1, -1, 103, -103,
		1e6, -1e6, 1e30, -1e30, math.MaxFloat32, -math.MaxFloat32, float32(math.Inf(1)), float32(math.Inf(-1))}
	for i, f := range reps {
		s := eval.HeuristicScore(eval.Pawns(f))
		c.Eval(1)
		c.Count("constructor_checks", 1)
		if s.Type != eval.Heuristic || math.Float32bits(float32(s.Pawns)) != math.Float32bits(f) {
			c.Violate("order:constructor", "HeuristicScore(%v) = %+v: not the heuristic value it was given", f, s)
		}
		for _, g := range reps[i+1:] {
			t := eval.HeuristicScore(eval.Pawns(g))
			if (f < g) != s.Less(t) || (g < f) != t.Less(s) {
				c.Violate("order:constructor", "HeuristicScore(%v) vs HeuristicScore(%v): Less says %v / %v, the numbers say %v / %v", f, g, s.Less(t), t.Less(s), f < g, g < f)
			}
			// seen from the other side
			if (f < g) != t.Negate().Less(s.Negate()) {
				c.Violate("order:constructor", "-HeuristicScore(%v) < -HeuristicScore(%v) is %v although %v < %v is %v", g, f, t.Negate().Less(s.Negate()), f, g, f < g)
			}
		}
	}
	for k := -128; k <= 127; k++ {
		if k == 0 {
			continue
		}
		c.Eval(1)
		c.Count("constructor_checks", 1)
		if s := eval.MateInXScore(int8(k)); s.Type != eval.MateInX || s.Mate != int8(k) {
			c.Violate("order:constructor", "MateInXScore(%d) = %+v", k, s)
		}
	}
}

func triple(c *fw.Ctx, a, b, d eval.Score) {
	c.Eval(1)
	c.Count("triples", 1)
	if a.Less(b) && b.Less(d) && !a.Less(d) {
		c.Violate("order:transitive", "%v<%v and %v<%v but not %v<%v", a, b, b, d, a, d)
	}
	// negative transitivity (equivalence classes behave): if neither a<b nor b<a, they compare alike against d
	if !a.Less(b) && !b.Less(a) && (a.Less(d) != b.Less(d) || d.Less(a) != d.Less(b)) {
		c.Violate("order:equivalence", "%v and %v are unordered but compare differently against %v", a, b, d)
	}
}

var _ = fmt.Sprint
