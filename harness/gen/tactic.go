package gen

import (
	"math/rand"

	"verif/ref"
)

// NumTactics is the number of shape constructors Tactic cycles through.
const NumTactics = 15

// flipColors mirrors the position so that shapes are exercised for both colours.
func maybeFlip(r *rand.Rand, p ref.Pos) ref.Pos {
	if r.Intn(2) == 0 {
		return p.Mirror()
	}
	return p
}

func valid(p *ref.Pos) bool {
	wk, bk := p.KingSq(true), p.KingSq(false)
	if wk < 0 || bk < 0 {
		return false
	}
	kings := 0
	for _, v := range p.B {
		if v == ref.King || v == -ref.King {
			kings++
		}
	}
	if kings != 2 {
		return false
	}
	if abs(ref.File(wk)-ref.File(bk)) <= 1 && abs(ref.Rank(wk)-ref.Rank(bk)) <= 1 {
		return false
	}
	for sq, v := range p.B {
		if (v == ref.Pawn || v == -ref.Pawn) && (ref.Rank(sq) == 0 || ref.Rank(sq) == 7) {
			return false
		}
	}
	return !p.InCheck(!p.White)
}

func sprinkle(r *rand.Rand, p *ref.Pos, n int) {
	for i := 0; i < n; i++ {
		sq := r.Intn(64)
		if p.B[sq] != 0 {
			continue
		}
		k := int8(1 + r.Intn(5))
		if k == ref.Pawn && (ref.Rank(sq) == 0 || ref.Rank(sq) == 7) {
			continue
		}
		if r.Intn(2) == 0 {
			k = -k
		}
		p.B[sq] = k
	}
}

func putFree(r *rand.Rand, p *ref.Pos, v int8) int {
	for try := 0; try < 100; try++ {
		sq := r.Intn(64)
		if p.B[sq] == 0 {
			p.B[sq] = v
			return sq
		}
	}
	return -1
}

// Tactic constructs a named tactical shape (index i selects the shape), randomised in
// placement and colour. ok=false when the random attempt did not yield a legal position.
func Tactic(r *rand.Rand, i int) (ref.Pos, bool) {
	var p ref.Pos
	p.EP = -1
	p.White = true
	p.Full = 1 + r.Intn(60)
	p.Half = r.Intn(50)
	dirs := [8][2]int{{1, 0}, {0, 1}, {-1, 0}, {0, -1}, {1, 1}, {-1, 1}, {-1, -1}, {1, -1}}
	switch i % NumTactics {
	case 0: // absolute pin on a random ray
		k := r.Intn(64)
		d := dirs[r.Intn(8)]
		f, rk := ref.File(k), ref.Rank(k)
		var ray []int
		for x, y := f+d[0], rk+d[1]; x >= 0 && x < 8 && y >= 0 && y < 8; x, y = x+d[0], y+d[1] {
			ray = append(ray, ref.Sq(x, y))
		}
		if len(ray) < 2 {
			return p, false
		}
		a := r.Intn(len(ray) - 1)
		b := a + 1 + r.Intn(len(ray)-a-1)
		p.B[k] = ref.King
		own := []int8{ref.Pawn, ref.Knight, ref.Bishop, ref.Rook, ref.Queen}[r.Intn(5)]
		if own == ref.Pawn && (ref.Rank(ray[a]) == 0 || ref.Rank(ray[a]) == 7) {
			own = ref.Knight
		}
		p.B[ray[a]] = own
		slider := int8(ref.Queen)
		if r.Intn(2) == 0 {
			if d[0] == 0 || d[1] == 0 {
				slider = ref.Rook
			} else {
				slider = ref.Bishop
			}
		}
		p.B[ray[b]] = -slider
		if putFree(r, &p, -ref.King) < 0 {
			return p, false
		}
		sprinkle(r, &p, r.Intn(8))
	case 1: // double check by discovered attack: knight + rook/bishop on the king
		k := r.Intn(64)
		p.B[k] = ref.King
		f, rk := ref.File(k), ref.Rank(k)
		d := dirs[r.Intn(8)]
		x, y := f+d[0]*(2+r.Intn(3)), rk+d[1]*(2+r.Intn(3))
		if x < 0 || x > 7 || y < 0 || y > 7 || (d[0] != 0 && d[1] != 0 && abs(x-f) != abs(y-rk)) {
			return p, false
		}
		slider := int8(ref.Rook)
		if d[0] != 0 && d[1] != 0 {
			slider = ref.Bishop
		}
		p.B[ref.Sq(x, y)] = -slider
		kn := [8][2]int{{1, 2}, {2, 1}, {2, -1}, {1, -2}, {-1, -2}, {-2, -1}, {-2, 1}, {-1, 2}}[r.Intn(8)]
		nx, ny := f+kn[0], rk+kn[1]
		if nx < 0 || nx > 7 || ny < 0 || ny > 7 || p.B[ref.Sq(nx, ny)] != 0 {
			return p, false
		}
		p.B[ref.Sq(nx, ny)] = -ref.Knight
		if putFree(r, &p, -ref.King) < 0 {
			return p, false
		}
		sprinkle(r, &p, r.Intn(6))
	case 2: // e.p. that would expose the king along the rank (8/8/8/KPp4r family)
		rank := 4
		files := r.Perm(8)
		kf, pf := files[0], files[1]
		if abs(kf-pf) < 1 {
			return p, false
		}
		// own pawn at pf, enemy pawn adjacent, rook on the far side
		ef := pf + 1
		if r.Intn(2) == 0 {
			ef = pf - 1
		}
		if ef < 0 || ef > 7 || ef == kf {
			return p, false
		}
		lo, hi := pf, ef
		if lo > hi {
			lo, hi = hi, lo
		}
		var rf int
		if kf < lo {
			if hi >= 7 {
				return p, false
			}
			rf = hi + 1 + r.Intn(7-hi)
		} else if kf > hi {
			if lo <= 0 {
				return p, false
			}
			rf = r.Intn(lo)
		} else {
			return p, false
		}
		p.B[ref.Sq(kf, rank)] = ref.King
		p.B[ref.Sq(pf, rank)] = ref.Pawn
		p.B[ref.Sq(ef, rank)] = -ref.Pawn
		p.B[ref.Sq(rf, rank)] = -[]int8{ref.Rook, ref.Queen}[r.Intn(2)]
		p.EP = ref.Sq(ef, rank+1)
		p.Half = 0
		bk := putFree(r, &p, -ref.King)
		if bk < 0 || ref.Rank(bk) == rank || bk == ref.Sq(ef, rank+2) || bk == p.EP {
			return p, false
		}
		if r.Intn(2) == 0 { // sometimes a second capturer on the other side (then not pinned: two pawns leave)
			of := ef + (ef - pf)
			if of >= 0 && of <= 7 && p.B[ref.Sq(of, rank)] == 0 {
				p.B[ref.Sq(of, rank)] = ref.Pawn
			}
		}
	case 3: // e.p. that captures the checking pawn / diagonal discoveries
		kf, kr := 1+r.Intn(6), 3 // white king on rank 4, black pawn jumped to rank 5 giving check? pawn on rank5 attacks rank4
		ef := kf + 1
		if r.Intn(2) == 0 {
			ef = kf - 1
		}
		p.B[ref.Sq(kf, kr)] = ref.King
		p.B[ref.Sq(ef, 4)] = -ref.Pawn
		p.EP = ref.Sq(ef, 5)
		p.Half = 0
		// white pawn that can take e.p.
		wf := ef + 1
		if r.Intn(2) == 0 {
			wf = ef - 1
		}
		if wf < 0 || wf > 7 || p.B[ref.Sq(wf, 4)] != 0 {
			return p, false
		}
		p.B[ref.Sq(wf, 4)] = ref.Pawn
		bk := putFree(r, &p, -ref.King)
		if bk < 0 || bk == p.EP || bk == ref.Sq(ef, 6) {
			return p, false
		}
		if r.Intn(2) == 0 {
			sprinkle(r, &p, 3)
			if p.B[p.EP] != 0 || p.B[ref.Sq(ef, 6)] != 0 {
				return p, false
			}
		}
	case 4, 5: // castling under every kind of attack
		p.B[ref.Sq(4, 0)] = ref.King
		p.B[ref.Sq(0, 0)] = ref.Rook
		p.B[ref.Sq(7, 0)] = ref.Rook
		p.Cast = ref.CastleWK | ref.CastleWQ
		if r.Intn(4) == 0 {
			p.Cast = []uint8{ref.CastleWK, ref.CastleWQ, 0}[r.Intn(3)]
		}
		if r.Intn(5) == 0 { // rook missing although the right is claimed is not a legal position: drop the right too
			if r.Intn(2) == 0 {
				p.B[ref.Sq(0, 0)] = 0
				p.Cast &^= ref.CastleWQ
			} else {
				p.B[ref.Sq(7, 0)] = 0
				p.Cast &^= ref.CastleWK
			}
		}
		if r.Intn(2) == 0 {
			p.B[ref.Sq(4, 7)] = -ref.King
			p.B[ref.Sq(0, 7)] = -ref.Rook
			p.B[ref.Sq(7, 7)] = -ref.Rook
			p.Cast |= ref.CastleBK | ref.CastleBQ
		} else if putFree(r, &p, -ref.King) < 0 {
			return p, false
		}
		// an enemy piece aimed at one of the first-rank squares
		target := ref.Sq(r.Intn(8), 0)
		kind := []int8{ref.Rook, ref.Bishop, ref.Queen, ref.Knight, ref.Pawn}[r.Intn(5)]
		var from []int
		for sq := 8; sq < 64; sq++ {
			if p.B[sq] != 0 {
				continue
			}
			q := p
			q.B[sq] = -kind
			for _, t := range q.Reach(sq, int(kind), false) {
				if t == target {
					from = append(from, sq)
				}
			}
		}
		if len(from) > 0 && r.Intn(6) != 0 {
			sq := from[r.Intn(len(from))]
			if !(kind == ref.Pawn && (ref.Rank(sq) == 0 || ref.Rank(sq) == 7)) {
				p.B[sq] = -kind
			}
		}
		if r.Intn(3) == 0 { // a blocker between king and rook
			p.B[ref.Sq([]int{1, 2, 3, 5, 6}[r.Intn(5)], 0)] = []int8{ref.Knight, ref.Bishop, -ref.Knight}[r.Intn(3)]
		}
	case 6: // promotions with and without capture
		n := 1 + r.Intn(3)
		for j := 0; j < n; j++ {
			f := r.Intn(8)
			p.B[ref.Sq(f, 6)] = ref.Pawn
			if r.Intn(2) == 0 {
				p.B[ref.Sq(f, 7)] = -[]int8{ref.Knight, ref.Bishop, ref.Rook, ref.Queen}[r.Intn(4)]
			}
			for _, df := range []int{-1, 1} {
				if g := f + df; g >= 0 && g < 8 && r.Intn(2) == 0 && p.B[ref.Sq(g, 7)] == 0 {
					p.B[ref.Sq(g, 7)] = -[]int8{ref.Knight, ref.Bishop, ref.Rook, ref.Queen}[r.Intn(4)]
				}
			}
		}
		if putFree(r, &p, ref.King) < 0 || putFree(r, &p, -ref.King) < 0 {
			return p, false
		}
	case 7: // rook takes rook on home squares with the rights still present
		p.B[ref.Sq(4, 0)] = ref.King
		p.B[ref.Sq(4, 7)] = -ref.King
		p.B[ref.Sq(0, 0)] = ref.Rook
		p.B[ref.Sq(7, 0)] = ref.Rook
		p.B[ref.Sq(0, 7)] = -ref.Rook
		p.B[ref.Sq(7, 7)] = -ref.Rook
		p.Cast = ref.CastleWK | ref.CastleWQ | ref.CastleBK | ref.CastleBQ
		// open files so that the rooks see each other; sometimes a few pawns elsewhere
		for f := 1; f < 7; f++ {
			if r.Intn(3) == 0 {
				p.B[ref.Sq(f, 1)] = ref.Pawn
			}
			if r.Intn(3) == 0 {
				p.B[ref.Sq(f, 6)] = -ref.Pawn
			}
		}
		// other capturers aimed at the corners
		if r.Intn(2) == 0 {
			p.B[ref.Sq(1, 5)] = ref.Knight // b6 attacks a8
		}
		if r.Intn(2) == 0 {
			p.B[ref.Sq(3, 3)] = -ref.Bishop // d4 attacks a1 and h8's diagonal... a1-h8
		}
		if r.Intn(2) == 0 {
			p.B[ref.Sq(6, 6)] = ref.Pawn // g7 can take h8 promoting
			p.B[ref.Sq(6, 7)] = 0
		}
		if r.Intn(2) == 0 {
			p.B[ref.Sq(1, 1)] = -ref.Pawn // b2 can take a1 promoting
		}
	case 8: // mating nets and stalemates: heavy pieces against a lone king near the edge
		edge := r.Intn(4)
		var k int
		switch edge {
		case 0:
			k = ref.Sq(r.Intn(8), 7)
		case 1:
			k = ref.Sq(r.Intn(8), 0)
		case 2:
			k = ref.Sq(0, r.Intn(8))
		default:
			k = ref.Sq(7, r.Intn(8))
		}
		p.B[k] = -ref.King
		if putFree(r, &p, ref.King) < 0 {
			return p, false
		}
		for j := 0; j < 2+r.Intn(2); j++ {
			putFree(r, &p, []int8{ref.Queen, ref.Rook, ref.Rook, ref.Queen, ref.Bishop, ref.Knight}[r.Intn(6)])
		}
		p.White = r.Intn(3) != 0
	case 13: // e.p. where the pawn that disappears (not the capturing one) shields the king on a diagonal
		ef := r.Intn(8)
		wf := ef + 1
		if r.Intn(2) == 0 {
			wf = ef - 1
		}
		if wf < 0 || wf > 7 {
			return p, false
		}
		p.B[ref.Sq(ef, 4)] = -ref.Pawn
		p.B[ref.Sq(wf, 4)] = ref.Pawn
		p.EP = ref.Sq(ef, 5)
		p.Half = 0
		d := dirs[4+r.Intn(4)]
		var kray, sray []int
		for x, y := ef+d[0], 4+d[1]; x >= 0 && x < 8 && y >= 0 && y < 8; x, y = x+d[0], y+d[1] {
			kray = append(kray, ref.Sq(x, y))
		}
		for x, y := ef-d[0], 4-d[1]; x >= 0 && x < 8 && y >= 0 && y < 8; x, y = x-d[0], y-d[1] {
			sray = append(sray, ref.Sq(x, y))
		}
		if len(kray) == 0 || len(sray) == 0 {
			return p, false
		}
		k := kray[r.Intn(len(kray))]
		p.B[k] = ref.King
		if r.Intn(5) != 0 { // mostly with the slider behind the pawn, sometimes without (then the capture is fine)
			p.B[sray[r.Intn(len(sray))]] = -[]int8{ref.Bishop, ref.Queen}[r.Intn(2)]
		}
		if r.Intn(3) == 0 { // a second own pawn that may capture from the other side
			if of := ef + (ef - wf); of >= 0 && of <= 7 && p.B[ref.Sq(of, 4)] == 0 {
				p.B[ref.Sq(of, 4)] = ref.Pawn
			}
		}
		bk := putFree(r, &p, -ref.King)
		if bk < 0 || bk == p.EP || bk == ref.Sq(ef, 6) {
			return p, false
		}
		if r.Intn(3) == 0 {
			sprinkle(r, &p, 2)
			if p.B[p.EP] != 0 || p.B[ref.Sq(ef, 6)] != 0 {
				return p, false
			}
		}
		if p.InCheck(true) { // the pawn stood between slider and king a move ago, so White cannot be in check from that line now
			return p, false
		}
	case 14: // a double step that blocks a slider's line to the mover's own king, beside an enemy pawn: taking it
		// en passant uncovers the check again through the square the captured pawn leaves (Black to move here)
		ef := r.Intn(8)
		wf := ef + 1
		if r.Intn(2) == 0 {
			wf = ef - 1
		}
		if wf < 0 || wf > 7 {
			return p, false
		}
		p.White = false
		p.B[ref.Sq(ef, 6)] = -ref.Pawn
		p.B[ref.Sq(wf, 4)] = ref.Pawn
		land := ref.Sq(ef, 4) // where the double step lands
		d := dirs[r.Intn(8)]
		if d[1] == 0 && r.Intn(2) == 0 {
			d = dirs[4+r.Intn(4)]
		}
		var kray, sray []int
		for x, y := ef+d[0], 4+d[1]; x >= 0 && x < 8 && y >= 0 && y < 8; x, y = x+d[0], y+d[1] {
			kray = append(kray, ref.Sq(x, y))
		}
		for x, y := ef-d[0], 4-d[1]; x >= 0 && x < 8 && y >= 0 && y < 8; x, y = x-d[0], y-d[1] {
			sray = append(sray, ref.Sq(x, y))
		}
		if len(kray) == 0 || len(sray) == 0 {
			return p, false
		}
		k := kray[r.Intn(len(kray))]
		sl := sray[r.Intn(len(sray))]
		if p.B[k] != 0 || p.B[sl] != 0 || k == ref.Sq(ef, 5) || sl == ref.Sq(ef, 5) {
			return p, false
		}
		p.B[k] = -ref.King
		slider := int8(ref.Queen)
		if r.Intn(2) == 0 {
			if d[0] == 0 || d[1] == 0 {
				slider = ref.Rook
			} else {
				slider = ref.Bishop
			}
		}
		p.B[sl] = slider
		_ = land
		if putFree(r, &p, ref.King) < 0 {
			return p, false
		}
		// a few black men that could (wrongly) move instead of answering the check later
		for j := 0; j < 1+r.Intn(3); j++ {
			v := []int8{-ref.Pawn, -ref.Knight, -ref.Bishop, -ref.Rook}[r.Intn(4)]
			sq := putFree(r, &p, v)
			if sq >= 0 && v == -ref.Pawn && (ref.Rank(sq) == 0 || ref.Rank(sq) == 7) {
				p.B[sq] = 0
			}
		}
		if p.B[ref.Sq(ef, 5)] != 0 || p.B[ref.Sq(ef, 4)] != 0 {
			return p, false
		}
		if !p.InCheck(false) { // the slider must give check now: Black answers by interposing the pawn (among others)
			return p, false
		}
	case 12: // one piece pinned against two queens (or king and queen) along two different lines
		x := ref.Sq(2+r.Intn(4), 2+r.Intn(4))
		p.B[x] = []int8{ref.Knight, ref.Bishop, ref.Rook, ref.Pawn}[r.Intn(4)]
		perm := r.Perm(4) // line families: 0 rank, 1 file, 2 diagonal, 3 anti-diagonal
		lines := [4][2]int{{1, 0}, {0, 1}, {1, 1}, {1, -1}}
		targets := []int8{ref.Queen, ref.Queen}
		if r.Intn(3) == 0 {
			targets[0] = ref.King
		}
		for li := 0; li < 2; li++ {
			d := lines[perm[li]]
			if r.Intn(2) == 0 {
				d = [2]int{-d[0], -d[1]}
			}
			// own target on one side, enemy slider on the other, nothing in between
			t := 1 + r.Intn(2)
			a := 1 + r.Intn(2)
			tf, tr := ref.File(x)+d[0]*t, ref.Rank(x)+d[1]*t
			af, ar := ref.File(x)-d[0]*a, ref.Rank(x)-d[1]*a
			if tf < 0 || tf > 7 || tr < 0 || tr > 7 || af < 0 || af > 7 || ar < 0 || ar > 7 {
				return p, false
			}
			if p.B[ref.Sq(tf, tr)] != 0 || p.B[ref.Sq(af, ar)] != 0 {
				return p, false
			}
			p.B[ref.Sq(tf, tr)] = targets[li]
			slider := int8(ref.Queen)
			if r.Intn(2) == 0 {
				if perm[li] < 2 {
					slider = ref.Rook
				} else {
					slider = ref.Bishop
				}
			}
			p.B[ref.Sq(af, ar)] = -slider
		}
		if targets[0] != ref.King {
			if putFree(r, &p, ref.King) < 0 {
				return p, false
			}
		}
		if putFree(r, &p, -ref.King) < 0 {
			return p, false
		}
		if r.Intn(2) == 0 {
			sprinkle(r, &p, r.Intn(4))
		}
		p.White = r.Intn(2) == 0
	case 11: // stalemate as the weaker side's resource: a king boxed in a corner in front of its own rook pawn
		f := []int{0, 7}[r.Intn(2)]
		dir := 1
		if f == 7 {
			dir = -1
		}
		p.B[ref.Sq(f, 0)] = -ref.King
		p.B[ref.Sq(f, 1)] = -ref.Pawn
		wk := [][2]int{{f + 2*dir, 2}, {f + 3*dir, 2}, {f + 3*dir, 1}, {f + 3*dir, 0}, {f + 2*dir, 3}}[r.Intn(5)]
		p.B[ref.Sq(wk[0], wk[1])] = ref.King
		if r.Intn(2) == 0 { // more material for the stronger side, away from the corner
			p.B[ref.Sq(f+5*dir, 4+r.Intn(2))] = -[]int8{ref.Pawn, ref.Knight, ref.Bishop}[r.Intn(3)]
		}
		if r.Intn(3) == 0 {
			p.B[ref.Sq(f+6*dir, 2)] = ref.Pawn
			p.B[ref.Sq(f+6*dir, 3)] = -ref.Pawn
		}
		p.White = true
	case 10: // a king next to an enemy rook on its home corner while the castling right is still held
		p.B[ref.Sq(4, 7)] = -ref.King
		corner := []int{ref.Sq(7, 7), ref.Sq(0, 7)}[r.Intn(2)]
		p.B[corner] = -ref.Rook
		if corner == ref.Sq(7, 7) {
			p.Cast = ref.CastleBK
			p.B[[]int{ref.Sq(6, 6), ref.Sq(7, 6), ref.Sq(6, 7)}[r.Intn(3)]] = ref.King
		} else {
			p.Cast = ref.CastleBQ
			p.B[[]int{ref.Sq(1, 6), ref.Sq(0, 6), ref.Sq(1, 7)}[r.Intn(3)]] = ref.King
		}
		if r.Intn(2) == 0 && p.B[ref.Sq(0, 7)] == 0 {
			p.B[ref.Sq(0, 7)] = -ref.Rook
			p.Cast |= ref.CastleBQ
		}
		sprinkle(r, &p, r.Intn(5))
		if p.B[ref.Sq(4, 7)] != -ref.King || p.B[corner] != -ref.Rook {
			return p, false
		}
		p.White = r.Intn(4) != 0
	case 9: // lone kings and minimal material (insufficient-material neighbourhood)
		if putFree(r, &p, ref.King) < 0 || putFree(r, &p, -ref.King) < 0 {
			return p, false
		}
		for j := 0; j < r.Intn(3); j++ {
			v := []int8{ref.Bishop, ref.Knight, ref.Pawn, ref.Rook}[r.Intn(4)]
			if r.Intn(2) == 0 {
				v = -v
			}
			sq := putFree(r, &p, v)
			if sq >= 0 && (v == ref.Pawn || v == -ref.Pawn) && (ref.Rank(sq) == 0 || ref.Rank(sq) == 7) {
				p.B[sq] = 0
			}
		}
		p.White = r.Intn(2) == 0
	}
	if !valid(&p) {
		return p, false
	}
	p = maybeFlip(r, p)
	if !valid(&p) {
		return p, false
	}
	return p, true
}

// TacticOK retries until the shape is produced.
func TacticOK(r *rand.Rand, i int) ref.Pos {
	for {
		if p, ok := Tactic(r, i); ok {
			return p
		}
	}
}

// BoxedKing builds a sparse position in which the side to move is not in check, its king has no
// move, but some other piece or pawn can still move (zugzwang-like shapes: every available move
// may well walk into capture). ok=false if no such position was found within the attempt budget.
func BoxedKing(r *rand.Rand) (ref.Pos, bool) {
	for try := 0; try < 3000; try++ {
		var p ref.Pos
		p.EP = -1
		p.Full = 1 + r.Intn(80)
		p.Half = r.Intn(40)
		// own king on the edge, enemy king close
		var k int
		switch r.Intn(3) {
		case 0:
			k = []int{0, 7, 56, 63}[r.Intn(4)]
		case 1:
			k = ref.Sq(r.Intn(8), []int{0, 7}[r.Intn(2)])
		default:
			k = ref.Sq([]int{0, 7}[r.Intn(2)], r.Intn(8))
		}
		p.B[k] = ref.King
		df, dr := r.Intn(5)-2, r.Intn(5)-2
		ef, er := ref.File(k)+df, ref.Rank(k)+dr
		if ef < 0 || ef > 7 || er < 0 || er > 7 || (abs(df) <= 1 && abs(dr) <= 1) {
			continue
		}
		p.B[ref.Sq(ef, er)] = -ref.King
		// a few men
		for i := 0; i < 1+r.Intn(2); i++ {
			sq := putFree(r, &p, []int8{ref.Pawn, ref.Pawn, ref.Knight, ref.Bishop, ref.Pawn}[r.Intn(5)])
			if sq >= 0 && p.B[sq] == ref.Pawn && (ref.Rank(sq) == 0 || ref.Rank(sq) == 7) {
				p.B[sq] = 0
			}
		}
		for i := 0; i < 1+r.Intn(3); i++ {
			sq := putFree(r, &p, -[]int8{ref.Bishop, ref.Rook, ref.Knight, ref.Pawn, ref.Pawn, ref.Queen}[r.Intn(6)])
			if sq >= 0 && p.B[sq] == -ref.Pawn && (ref.Rank(sq) == 0 || ref.Rank(sq) == 7) {
				p.B[sq] = 0
			}
		}
		p.White = true
		if !valid(&p) || p.InCheck(true) {
			continue
		}
		ms := p.LegalMoves()
		if len(ms) == 0 {
			continue
		}
		kingMoves := 0
		for _, m := range ms {
			if m.Piece == ref.King {
				kingMoves++
			}
		}
		if kingMoves > 0 {
			continue
		}
		return maybeFlip(r, p), true
	}
	return ref.Pos{}, false
}

// EPOnlyDefence searches for a position in which the side to move is in check from a pawn that has just
// made a double step and the en-passant capture of that pawn is the only legal move.
func EPOnlyDefence(r *rand.Rand) (ref.Pos, bool) {
	for try := 0; try < 30000; try++ {
		p, ok := Tactic(r, 3)
		if !ok {
			continue
		}
		// Tactic may have colour-flipped it; add heavy pieces for the checking side to box the king in
		for i := 0; i < 2+r.Intn(4); i++ {
			v := []int8{ref.Queen, ref.Rook, ref.Rook, ref.Bishop, ref.Knight}[r.Intn(5)]
			if p.White {
				v = -v
			}
			putFree(r, &p, v)
		}
		if !valid(&p) || !p.InCheck(p.White) {
			continue
		}
		ms := p.LegalMoves()
		if len(ms) == 0 {
			continue
		}
		only := true
		for _, m := range ms {
			if m.Kind != ref.KEnPassant {
				only = false
				break
			}
		}
		if only {
			return p, true
		}
	}
	return ref.Pos{}, false
}

// OpenLines builds a position in which one long-range piece of the side to move stands on an (almost) open
// board with enemy men at the far ends of several of its lines: the extremes of mobility and of the number of
// captures available to one piece (heuristics that scale with either meet their largest arguments here).
func OpenLines(r *rand.Rand) (ref.Pos, bool) {
	for try := 0; try < 200; try++ {
		var p ref.Pos
		p.EP = -1
		p.White = true
		p.Full = 1 + r.Intn(60)
		p.Half = r.Intn(30)
		sq := ref.Sq(2+r.Intn(4), 2+r.Intn(4))
		kind := []int8{ref.Queen, ref.Queen, ref.Queen, ref.Rook, ref.Bishop}[r.Intn(5)]
		p.B[sq] = kind
		dirs := [8][2]int{{1, 0}, {0, 1}, {-1, 0}, {0, -1}, {1, 1}, {-1, 1}, {-1, -1}, {1, -1}}
		for _, d := range dirs {
			x, y := ref.File(sq), ref.Rank(sq)
			for x+d[0] >= 0 && x+d[0] < 8 && y+d[1] >= 0 && y+d[1] < 8 {
				x, y = x+d[0], y+d[1]
			}
			end := ref.Sq(x, y)
			if end == sq || r.Intn(6) == 0 {
				continue
			}
			v := []int8{ref.Knight, ref.Bishop, ref.Rook, ref.Knight, ref.Pawn}[r.Intn(5)]
			if v == ref.Pawn && (y == 0 || y == 7) {
				v = ref.Knight
			}
			p.B[end] = -v
		}
		// kings off the piece's lines
		var free []int
		for s := 0; s < 64; s++ {
			if p.B[s] != 0 {
				continue
			}
			dx, dy := ref.File(s)-ref.File(sq), ref.Rank(s)-ref.Rank(sq)
			if dx == 0 || dy == 0 || dx == dy || dx == -dy {
				continue
			}
			free = append(free, s)
		}
		if len(free) < 2 {
			continue
		}
		r.Shuffle(len(free), func(i, j int) { free[i], free[j] = free[j], free[i] })
		p.B[free[0]], p.B[free[1]] = ref.King, -ref.King
		if !valid(&p) || p.InCheck(true) {
			continue
		}
		return maybeFlip(r, p), true
	}
	return ref.Pos{}, false
}

// Crowded builds a legal position in which the side to move has more than 128 moves (seven to ten queens on
// open lines, pawns about to promote, the enemy king sheltered in a corner behind its own men): sizes beyond
// anything a game reaches, but well-formed, and the moves generated last (pawn and king moves) are often the best.
func Crowded(r *rand.Rand) (ref.Pos, bool) {
	for try := 0; try < 400; try++ {
		var p ref.Pos
		p.EP = -1
		p.White = true
		p.Full = 1 + r.Intn(60)
		p.Half = r.Intn(40)
		// black king h8 behind g7/h7, a piece on g8
		p.B[ref.Sq(7, 7)] = -ref.King
		p.B[ref.Sq(6, 7)] = -[]int8{ref.Rook, ref.Bishop, ref.Knight}[r.Intn(3)]
		p.B[ref.Sq(6, 6)] = -ref.Pawn
		p.B[ref.Sq(7, 6)] = -ref.Pawn
		p.B[ref.Sq(r.Intn(8), r.Intn(2))] = ref.King
		for q, n := 0, 7+r.Intn(4); q < n; q++ {
			sq := ref.Sq(r.Intn(8), r.Intn(6))
			if p.B[sq] == 0 {
				p.B[sq] = ref.Queen
			}
		}
		for k, n := 0, 1+r.Intn(3); k < n; k++ { // pawns on the seventh rank, a-f files
			sq := ref.Sq(r.Intn(6), 6)
			if p.B[sq] == 0 {
				p.B[sq] = ref.Pawn
			}
		}
		for k, n := 0, r.Intn(4); k < n; k++ { // something to take
			sq := ref.Sq(r.Intn(6), 2+r.Intn(6))
			if p.B[sq] == 0 {
				v := int8(1 + r.Intn(5))
				if v == ref.Pawn && ref.Rank(sq) == 7 {
					v = ref.Knight
				}
				p.B[sq] = -v
			}
		}
		if !valid(&p) || len(p.LegalMoves()) <= 132 {
			continue
		}
		return maybeFlip(r, p), true
	}
	return ref.Pos{}, false
}

// CornerRook: a rook stands at home with its castling right intact, a second rook of the same side can reach
// that corner, and an enemy piece (bishop, queen, knight, rook or a promoting pawn) can take the home rook now.
// Three plies on — capture, recapture by the second rook, anything — the castling right must be gone although
// king and "a" rook stand where they should. ok=false when the random attempt is not a legal position.
func CornerRook(r *rand.Rand) (ref.Pos, bool) {
	var p ref.Pos
	p.EP = -1
	p.White = true
	p.Full = 1 + r.Intn(40)
	p.Half = r.Intn(30)
	cf := []int{0, 7}[r.Intn(2)] // corner file
	dir := 1
	if cf == 7 {
		dir = -1
	}
	corner := ref.Sq(cf, 7)
	p.B[ref.Sq(4, 7)] = -ref.King
	p.B[corner] = -ref.Rook
	if cf == 0 {
		p.Cast = ref.CastleBQ
	} else {
		p.Cast = ref.CastleBK
	}
	// the second rook: on the corner file below, or (rarely) beyond the king on the back rank is impossible: file only
	p.B[ref.Sq(cf, 1+r.Intn(5))] = -ref.Rook
	// the capturer
	switch r.Intn(5) {
	case 0, 1: // along the long diagonal
		k := 2 + r.Intn(5)
		v := int8(ref.Bishop)
		if r.Intn(3) == 0 {
			v = ref.Queen
		}
		p.B[ref.Sq(cf+dir*k, 7-k)] = v
	case 2: // knight
		sq := [][2]int{{cf + dir, 5}, {cf + 2*dir, 6}}[r.Intn(2)]
		p.B[ref.Sq(sq[0], sq[1])] = ref.Knight
	case 3: // along the back rank from the far side is blocked by the king; a pawn takes and promotes
		p.B[ref.Sq(cf+dir, 6)] = ref.Pawn
	default: // rook or queen on the rank next to the king's: no; down the file is blocked; use the diagonal again from far away
		p.B[ref.Sq(cf+dir*7, 0)] = ref.Bishop
	}
	// white king out of the way, a few bystanders
	for try := 0; try < 20; try++ {
		sq := ref.Sq(2+r.Intn(5), r.Intn(2))
		if p.B[sq] == 0 {
			p.B[sq] = ref.King
			break
		}
	}
	if r.Intn(2) == 0 { // the other black rook's right as well, and white rights
		if o := ref.Sq(7-cf, 7); p.B[o] == 0 {
			p.B[o] = -ref.Rook
			p.Cast |= ref.CastleBQ | ref.CastleBK
		}
	}
	for k, n := 0, r.Intn(4); k < n; k++ {
		sq := ref.Sq(r.Intn(8), 1+r.Intn(5))
		if p.B[sq] == 0 && ref.File(sq) != cf {
			v := int8(1 + r.Intn(3))
			if r.Intn(2) == 0 {
				v = -v
			}
			p.B[sq] = v
		}
	}
	if !valid(&p) {
		return p, false
	}
	// the home rook must be capturable now
	can := false
	for _, m := range p.LegalMoves() {
		if m.To == corner && m.Capture == ref.Rook {
			can = true
		}
	}
	if !can {
		return p, false
	}
	return maybeFlip(r, p), true
}
