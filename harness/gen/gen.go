// Package gen contains the seeded workload generators. Moves are always chosen by the
// reference oracle, never by the system under test.
package gen

import (
	"math/rand"

	"verif/ref"
)

// Hist is a position together with the game that led to it.
type Hist struct {
	Start ref.Pos
	Moves []ref.Move
}

// Final replays the history.
func (h Hist) Final() ref.Pos {
	p := h.Start
	for _, m := range h.Moves {
		p = p.Apply(m)
	}
	return p
}

// MoveStrs renders the moves in coordinate notation.
func (h Hist) MoveStrs() []string {
	var s []string
	for _, m := range h.Moves {
		s = append(s, m.String())
	}
	return s
}

// Curated start positions: the perft suite plus shapes the properties call fragile.
var StartFENs = []string{
	"rnbqkbnr/pppppppp/8/8/8/8/PPPPPPPP/RNBQKBNR w KQkq - 0 1",
	"r3k2r/p1ppqpb1/bn2pnp1/3PN3/1p2P3/2N2Q1p/PPPBBPPP/R3K2R w KQkq - 0 1",
	"8/2p5/3p4/KP5r/1R3p1k/8/4P1P1/8 w - - 0 1",
	"r3k2r/Pppp1ppp/1b3nbN/nP6/BBP1P3/q4N2/Pp1P2PP/R2Q1RK1 w kq - 0 1",
	"rnbq1k1r/pp1Pbppp/2p5/8/2B5/8/PPP1NnPP/RNBQK2R w KQ - 1 8",
	"r4rk1/1pp1qppp/p1np1n2/2b1p1B1/2B1P1b1/P1NP1N2/1PP1QPPP/R4RK1 w - - 0 10",
	// castling with bare rooks and kings: rook-takes-rook on home squares
	"r3k2r/8/8/8/8/8/8/R3K2R w KQkq - 0 1",
	"r3k2r/8/8/8/8/8/8/R3K2R b KQkq - 0 1",
	"r3k2r/p6p/8/8/8/8/P6P/R3K2R w KQkq - 4 20",
	// promotions galore
	"n1n5/PPPk4/8/8/8/8/4Kppp/5N1N b - - 0 1",
	"4k3/P1P3PP/8/8/8/8/pp4pp/4K3 w - - 0 1",
	// en passant with pins along the rank / diagonal
	"8/8/8/KPp4r/8/8/8/7k w - c6 0 2",
	"8/8/8/8/k1pP3R/8/8/4K3 b - d3 0 1",
	"4k3/8/8/2pP4/8/8/8/B3K3 w - c6 0 2",
	"8/8/3k4/8/2pP4/8/8/3RK3 b - d3 0 1",
	// sparse endings
	"8/8/8/4k3/8/8/4P3/4K3 w - - 0 1",
	"8/5k2/8/8/8/8/1Q6/K7 w - - 0 1",
	"7k/8/8/8/8/8/R7/1R4K1 w - - 10 40",
	"8/8/8/8/8/2k5/1q6/K7 w - - 0 1",
	"k7/8/1K6/8/8/8/7Q/8 w - - 90 80",
	"8/8/4k3/8/8/3BB3/8/4K3 w - - 0 1",
	"8/8/4k3/8/8/3NB3/8/4K3 w - - 0 1",
	"4k3/8/8/8/8/8/8/4KB1b w - - 0 1",
	"4k1n1/8/8/8/8/8/8/4KB2 w - - 0 1",
	"3qk3/8/8/8/8/8/8/3QK3 w - - 0 1",
	// middlegames
	"r1bqkb1r/pppp1ppp/2n2n2/4p3/2B1P3/5N2/PPPP1PPP/RNBQK2R w KQkq - 4 4",
	"r2q1rk1/ppp2ppp/2np1n2/2b1p1B1/2B1P1b1/2NP1N2/PPP2PPP/R2Q1RK1 w - - 2 8",
	"2kr3r/ppp2ppp/2n5/3q4/3P4/2P2N2/P4PPP/R2QK2R w KQ - 0 14",
	"rnbqkbnr/ppp1pppp/8/3pP3/8/8/PPPP1PPP/RNBQKBNR b KQkq - 0 2",
	"rnbqkbnr/pp2pppp/8/2ppP3/8/8/PPPP1PPP/RNBQKBNR w KQkq d6 0 3",
}

// Starts returns the parsed curated positions.
func Starts() []ref.Pos {
	var ret []ref.Pos
	for _, f := range StartFENs {
		p := ref.MustFEN(f)
		if p.InCheck(!p.White) || p.KingSq(true) < 0 || p.KingSq(false) < 0 {
			panic("curated start position is not legal: " + f)
		}
		ret = append(ret, p)
	}
	return ret
}

// Bias steers random move choice. Weights are relative; 1 is neutral.
type Bias struct {
	Capture, Check, Promo, Castle, EP, Quiet float64
	// PawnMove scales pushes and double steps (0 = neutral).
	PawnMove float64
	// Shuffle, when >0, is the probability of preferring a move that undoes the mover's previous
	// move (manufactures repetitions and long no-progress runs).
	Shuffle float64
}

var (
	Neutral  = Bias{Capture: 1, Check: 1, Promo: 1, Castle: 1, EP: 1, Quiet: 1}
	Tactical = Bias{Capture: 4, Check: 3, Promo: 6, Castle: 8, EP: 20, Quiet: 1}
	Shuffly  = Bias{Capture: 0.15, Check: 1, Promo: 0.3, Castle: 1, EP: 1, Quiet: 2, Shuffle: 0.7}
	Quietish = Bias{Capture: 0.05, Check: 1, Promo: 0.2, Castle: 2, EP: 1, Quiet: 3, Shuffle: 0.35}
	// NoProgress avoids captures and pawn moves and does not shuffle: long reversible runs without repetition.
	NoProgress = Bias{Capture: 0.001, Check: 1, Promo: 0.001, Castle: 1, EP: 0.001, Quiet: 3, PawnMove: 0.001}
	// CastleShuffle castles as soon as possible and then shuffles (repetition whose first occurrence follows castling).
	CastleShuffle = Bias{Capture: 0.05, Check: 1, Promo: 0.2, Castle: 200, EP: 1, Quiet: 2, PawnMove: 0.2, Shuffle: 0.85}
	// Trader loves captures: runs material down to the insufficient-material classes.
	Trader = Bias{Capture: 30, Check: 1, Promo: 3, Castle: 1, EP: 30, Quiet: 1}
)

// Biases lists the presets for round-robin use.
var Biases = []Bias{Neutral, Tactical, Shuffly, Quietish}

// Pick chooses a legal move under the bias. prevOwn is the mover's previous move (or nil).
func Pick(r *rand.Rand, p *ref.Pos, moves []ref.Move, b Bias, prevOwn *ref.Move) ref.Move {
	if prevOwn != nil && b.Shuffle > 0 && r.Float64() < b.Shuffle {
		for _, m := range moves {
			if m.From == prevOwn.To && m.To == prevOwn.From && m.Kind == ref.KNormal {
				return m
			}
		}
	}
	w := make([]float64, len(moves))
	total := 0.0
	for i, m := range moves {
		x := b.Quiet
		switch m.Kind {
		case ref.KCapture:
			x = b.Capture
		case ref.KEnPassant:
			x = b.EP
		case ref.KCastleK, ref.KCastleQ:
			x = b.Castle
		case ref.KPromotion, ref.KCapturePromotion:
			x = b.Promo
		case ref.KPush, ref.KJump:
			if b.PawnMove > 0 {
				x *= b.PawnMove
			}
		}
		if b.Check != 1 {
			n := p.Apply(m)
			if n.InCheck(n.White) {
				x *= b.Check
			}
		}
		if x <= 0 {
			x = 0.0001
		}
		w[i] = x
		total += x
	}
	t := r.Float64() * total
	for i := range moves {
		t -= w[i]
		if t <= 0 {
			return moves[i]
		}
	}
	return moves[len(moves)-1]
}

// Playout plays up to maxPlies random legal moves from start (stops at mate/stalemate).
func Playout(r *rand.Rand, start ref.Pos, maxPlies int, b Bias) Hist {
	h := Hist{Start: start}
	p := start
	for i := 0; i < maxPlies; i++ {
		ms := p.LegalMoves()
		if len(ms) == 0 {
			break
		}
		var prev *ref.Move
		if len(h.Moves) >= 2 {
			prev = &h.Moves[len(h.Moves)-2]
		}
		m := Pick(r, &p, ms, b, prev)
		h.Moves = append(h.Moves, m)
		p = p.Apply(m)
	}
	return h
}

// Synth builds a synthetic legal position with odd material. ok=false if the attempt was rejected.
func Synth(r *rand.Rand) (ref.Pos, bool) {
	var p ref.Pos
	p.EP = -1
	place := func(v int8) bool {
		for try := 0; try < 50; try++ {
			sq := r.Intn(64)
			if p.B[sq] != 0 {
				continue
			}
			k := v
			if k < 0 {
				k = -k
			}
			if k == ref.Pawn && (ref.Rank(sq) == 0 || ref.Rank(sq) == 7) {
				continue
			}
			p.B[sq] = v
			return true
		}
		return false
	}
	// kings: sometimes on home squares so that castling rights are possible
	if r.Intn(3) == 0 {
		p.B[ref.Sq(4, 0)] = ref.King
	} else {
		place(ref.King)
	}
	if r.Intn(3) == 0 && p.B[ref.Sq(4, 7)] == 0 {
		p.B[ref.Sq(4, 7)] = -ref.King
	} else {
		place(-ref.King)
	}
	wk, bk := p.KingSq(true), p.KingSq(false)
	if d := abs(ref.File(wk)-ref.File(bk)) | abs(ref.Rank(wk)-ref.Rank(bk)); d <= 1 {
		return p, false // adjacent kings
	}
	style := r.Intn(6)
	for _, s := range []int8{1, -1} {
		var n int
		switch style {
		case 0:
			n = r.Intn(3) // sparse
		case 1:
			n = 3 + r.Intn(5)
		case 2:
			n = 8 + r.Intn(8) // crowded
		default:
			n = r.Intn(10)
		}
		for i := 0; i < n; i++ {
			var k int8
			switch r.Intn(12) {
			case 0, 1, 2, 3:
				k = ref.Pawn
			case 4, 5:
				k = ref.Knight
			case 6, 7:
				k = ref.Bishop
			case 8, 9:
				k = ref.Rook
			default:
				k = ref.Queen
			}
			if style == 5 && r.Intn(2) == 0 {
				k = ref.Queen // many queens
			}
			place(s * k)
		}
		// rooks on home squares now and then
		if r.Intn(3) == 0 {
			rank := 0
			if s < 0 {
				rank = 7
			}
			for _, f := range []int{0, 7} {
				if r.Intn(2) == 0 && p.B[ref.Sq(f, rank)] == 0 {
					p.B[ref.Sq(f, rank)] = s * ref.Rook
				}
			}
		}
	}
	p.White = r.Intn(2) == 0
	if p.InCheck(!p.White) {
		return p, false
	}
	// castling rights consistent with the placement
	if p.B[ref.Sq(4, 0)] == ref.King {
		if p.B[ref.Sq(7, 0)] == ref.Rook && r.Intn(4) != 0 {
			p.Cast |= ref.CastleWK
		}
		if p.B[ref.Sq(0, 0)] == ref.Rook && r.Intn(4) != 0 {
			p.Cast |= ref.CastleWQ
		}
	}
	if p.B[ref.Sq(4, 7)] == -ref.King {
		if p.B[ref.Sq(7, 7)] == -ref.Rook && r.Intn(4) != 0 {
			p.Cast |= ref.CastleBK
		}
		if p.B[ref.Sq(0, 7)] == -ref.Rook && r.Intn(4) != 0 {
			p.Cast |= ref.CastleBQ
		}
	}
	p.Half = r.Intn(100)
	p.Full = 1 + r.Intn(150)
	// e.p. target behind a pawn that could just have jumped
	if r.Intn(2) == 0 {
		var cands []int
		for f := 0; f < 8; f++ {
			if p.White { // black just moved: black pawn on rank 5 (index 4), rank 6/7 (idx 5,6) empty
				if p.B[ref.Sq(f, 4)] == -ref.Pawn && p.B[ref.Sq(f, 5)] == 0 && p.B[ref.Sq(f, 6)] == 0 {
					cands = append(cands, ref.Sq(f, 5))
				}
			} else {
				if p.B[ref.Sq(f, 3)] == ref.Pawn && p.B[ref.Sq(f, 2)] == 0 && p.B[ref.Sq(f, 1)] == 0 {
					cands = append(cands, ref.Sq(f, 2))
				}
			}
		}
		if len(cands) > 0 {
			ep := cands[r.Intn(len(cands))]
			// the jump must not have been made while the mover's own king stayed in check: already
			// guaranteed (side not to move is not in check). It must also not leave an impossible
			// double check; that does not matter for move generation.
			p.EP = ep
			p.Half = 0
		}
	}
	return p, true
}

// SynthOK retries until a position is produced.
func SynthOK(r *rand.Rand) ref.Pos {
	for {
		if p, ok := Synth(r); ok {
			return p
		}
	}
}

func abs(x int) int {
	if x < 0 {
		return -x
	}
	return x
}

// Corpus produces n histories: playouts from curated starts and from synthetic roots.
func Corpus(r *rand.Rand, n int, maxPlies int) []Hist {
	starts := Starts()
	var ret []Hist
	for i := 0; i < n; i++ {
		var start ref.Pos
		if i%3 == 2 {
			start = SynthOK(r)
		} else {
			start = starts[r.Intn(len(starts))]
		}
		plies := r.Intn(maxPlies + 1)
		ret = append(ret, Playout(r, start, plies, Biases[i%len(Biases)]))
	}
	return ret
}
