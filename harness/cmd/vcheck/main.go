// vcheck is the orchestrator / worker / replayer for all monitors.
package main

import (
	"flag"
	"fmt"
	"os"
	"strconv"

	"verif/fw"
	_ "verif/mon"
)

func main() {
	prop := flag.String("prop", "", "property id")
	tier := flag.String("tier", "quick", "quick|thorough")
	seedF := flag.Int64("seed", -1, "seed (default VERIF_SEED or 1)")
	worker := flag.Bool("worker", false, "run as worker")
	shard := flag.Int("shard", 0, "")
	of := flag.Int("of", 1, "")
	out := flag.String("out", "", "")
	group := flag.String("group", "all", "all|plain|race")
	scratch := flag.String("scratch", "", "")
	replay := flag.String("replay", "", "replay file")
	exe := flag.String("exe", "", "plain worker binary")
	exeRace := flag.String("exe-race", "", "race worker binary")
	// glog (linked in through morlock's logging) defines these; define them ourselves if it is not linked.
	if flag.Lookup("logtostderr") == nil {
		flag.Bool("logtostderr", false, "ignored")
	}
	if flag.Lookup("log_dir") == nil {
		flag.String("log_dir", "", "ignored")
	}
	flag.Parse()

	if *replay != "" {
		os.Exit(fw.Replay(*replay))
	}
	seed := *seedF
	if seed < 0 {
		seed = 1
		if s := os.Getenv("VERIF_SEED"); s != "" {
			if v, err := strconv.ParseInt(s, 10, 64); err == nil {
				seed = v
			}
		}
	}
	if t := os.Getenv("VERIF_TIER"); t != "" && !*worker {
		if t == "quick" || t == "thorough" {
			// the command line wins only if VERIF_TIER is unset
			_ = t
		}
	}
	m := fw.Get(*prop)
	if m == nil {
		fmt.Printf("unknown property %q; have %v\n", *prop, fw.IDs())
		os.Exit(2)
	}
	if *worker {
		fw.RunWorker(m, *tier, seed, *shard, *of, *out, *scratch, *group)
		return
	}
	self, _ := os.Executable()
	if *exe == "" {
		*exe = self
	}
	if *exeRace == "" {
		*exeRace = self
	}
	os.Exit(fw.Orchestrate(m, *tier, seed, *exe, *exeRace))
}
