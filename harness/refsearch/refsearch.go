// Package refsearch is the reference search: plain negamax without windows, tables or move
// ordering, walking the tree of the board under test (its legal moves and draw flags) but with
// its own score arithmetic, so that errors in eval.Score cannot cancel out.
package refsearch

import (
	"context"
	"fmt"

	"github.com/herohde/morlock/pkg/board"
	"github.com/herohde/morlock/pkg/eval"
	"github.com/herohde/morlock/pkg/search"

	"verif/adapt"
)

// Score kinds.
const (
	Loss = iota // side to move is mated in Dist plies
	Heur
	Win // side to move mates in Dist plies
)

// Score is the reference score.
type Score struct {
	Kind int
	Dist int
	H    float32
}

func (s Score) String() string {
	switch s.Kind {
	case Loss:
		return fmt.Sprintf("mated-in-%d", s.Dist)
	case Win:
		return fmt.Sprintf("mates-in-%d", s.Dist)
	}
	return fmt.Sprintf("%g", s.H)
}

// FromEval converts a score of the system under test.
func FromEval(s eval.Score) (Score, bool) {
	switch s.Type {
	case eval.Heuristic:
		return Score{Kind: Heur, H: float32(s.Pawns)}, true
	case eval.Inf:
		return Score{Kind: Win}, true
	case eval.NegInf:
		return Score{Kind: Loss}, true
	case eval.MateInX:
		if s.Mate > 0 {
			return Score{Kind: Win, Dist: int(s.Mate)}, true
		}
		return Score{Kind: Loss, Dist: -int(s.Mate)}, true
	}
	return Score{}, false
}

// ToEval converts to the system's representation (for building windows).
func (s Score) ToEval() eval.Score {
	switch s.Kind {
	case Heur:
		return eval.HeuristicScore(eval.Pawns(s.H))
	case Win:
		if s.Dist == 0 {
			return eval.InfScore
		}
		return eval.MateInXScore(int8(s.Dist))
	default:
		if s.Dist == 0 {
			return eval.NegInfScore
		}
		return eval.MateInXScore(int8(-s.Dist))
	}
}

// Less is the order: mated sooner < mated later < heuristics < mating later < mating sooner.
func (a Score) Less(b Score) bool {
	if a.Kind != b.Kind {
		return a.Kind < b.Kind
	}
	switch a.Kind {
	case Loss:
		return a.Dist < b.Dist
	case Win:
		return a.Dist > b.Dist
	}
	return a.H < b.H
}

func (a Score) Eq(b Score) bool { return !a.Less(b) && !b.Less(a) }

// Up views a child's score from the parent: other side, one ply further.
func (a Score) Up() Score {
	switch a.Kind {
	case Loss:
		return Score{Kind: Win, Dist: a.Dist + 1}
	case Win:
		return Score{Kind: Loss, Dist: a.Dist + 1}
	}
	return Score{Kind: Heur, H: -a.H}
}

// Config describes the search configuration to mirror.
type Config struct {
	Explore search.Exploration // nil = all moves
	Static  eval.Evaluator     // static evaluator (noise off)
	// QuietExplore, if set, makes the leaf a quiescence search with stand-pat over the selected moves.
	QuietExplore search.Exploration
	// OnePlyIfChecked mirrors SARGON's leaf: a 1-ply full search with static leaves when in check.
	OnePlyIfChecked bool
}

// Searcher runs reference searches.
type Searcher struct {
	Cfg    Config
	Budget uint64
	Nodes  uint64
	Over   bool

	// coverage
	DrawHits, Stalemates, Mates, Pruned, QuietNodes uint64
}

func (s *Searcher) tick() bool {
	s.Nodes++
	if s.Budget > 0 && s.Nodes > s.Budget {
		s.Over = true
	}
	return s.Over
}

var bg = context.Background()

// Value is the exact value of the position at the given depth, with root semantics
// (the root is searched even when the board is flagged drawn).
func (s *Searcher) Value(b *board.Board, depth int) Score {
	return s.value(b, depth, true)
}

// ChildValue is the value of a non-root node.
func (s *Searcher) ChildValue(b *board.Board, depth int) Score {
	return s.value(b, depth, false)
}

func (s *Searcher) value(b *board.Board, depth int, root bool) Score {
	if s.tick() {
		return Score{Kind: Heur}
	}
	if !root && b.Result().Outcome == board.Draw {
		s.DrawHits++
		return Score{Kind: Heur}
	}
	if depth == 0 {
		return s.leaf(b)
	}
	explore := search.FullExploration
	if s.Cfg.Explore != nil {
		explore = s.Cfg.Explore
	}
	_, pick := explore(bg, b)

	hasLegal, any := false, false
	var best Score
	for _, m := range b.Position().PseudoLegalMoves(b.Turn()) {
		if !b.PushMove(m) {
			continue
		}
		hasLegal = true
		if pick(m) {
			v := s.value(b, depth-1, false).Up()
			if !any || best.Less(v) {
				best, any = v, true
			}
		} else {
			s.Pruned++
		}
		b.PopMove()
		if s.Over {
			return Score{Kind: Heur}
		}
	}
	if !hasLegal {
		return s.terminal(b)
	}
	if !any {
		// legal moves exist but none is explored: undefined for the reference; flagged by the caller
		s.Over = true
		return Score{Kind: Heur}
	}
	return best
}

func (s *Searcher) terminal(b *board.Board) Score {
	p := adapt.RefOfBoard(b)
	if p.InCheck(p.White) {
		s.Mates++
		return Score{Kind: Loss}
	}
	s.Stalemates++
	return Score{Kind: Heur}
}

func (s *Searcher) static(b *board.Board) Score {
	return Score{Kind: Heur, H: float32(s.Cfg.Static.Evaluate(bg, b))}
}

func (s *Searcher) leaf(b *board.Board) Score {
	switch {
	case s.Cfg.QuietExplore != nil:
		return s.Quiet(b)
	case s.Cfg.OnePlyIfChecked:
		if !b.Position().IsChecked(b.Turn()) {
			return s.static(b)
		}
		sub := &Searcher{Cfg: Config{Static: s.Cfg.Static}, Budget: s.Budget}
		v := sub.value(b, 1, true)
		s.Nodes += sub.Nodes
		s.Mates += sub.Mates
		return v
	default:
		return s.static(b)
	}
}

// Quiet is the reference quiescence value: stand pat or the best selected move.
func (s *Searcher) Quiet(b *board.Board) Score {
	if s.tick() {
		return Score{Kind: Heur}
	}
	if b.Result().Outcome == board.Draw {
		s.DrawHits++
		return Score{Kind: Heur}
	}
	s.QuietNodes++
	best := s.static(b)
	_, pick := s.Cfg.QuietExplore(bg, b)
	hasLegal := false
	for _, m := range b.Position().PseudoLegalMoves(b.Turn()) {
		if !b.PushMove(m) {
			continue
		}
		hasLegal = true
		if pick(m) {
			v := s.Quiet(b).Up()
			if best.Less(v) {
				best = v
			}
		}
		b.PopMove()
		if s.Over {
			return Score{Kind: Heur}
		}
	}
	if !hasLegal {
		return s.terminal(b)
	}
	return best
}

// HashEval is a position-determined evaluator with few ties: multiples of 1/8 in [-8, 8],
// exact in float32 and under negation. It depends on placement, side, rights and e.p. only.
type HashEval struct{}

func (HashEval) Evaluate(ctx context.Context, b *board.Board) eval.Pawns {
	pos := b.Position()
	h := uint64(0x9E3779B97F4A7C15)
	mix := func(v uint64) {
		h ^= v + 0x9E3779B97F4A7C15 + (h << 6) + (h >> 2)
		h *= 0xBF58476D1CE4E5B9
		h ^= h >> 29
	}
	for c := board.ZeroColor; c < board.NumColors; c++ {
		for p := board.ZeroPiece; p < board.NumPieces; p++ {
			mix(uint64(pos.Piece(c, p)))
		}
	}
	mix(uint64(pos.Castling()))
	ep, _ := pos.EnPassant()
	mix(uint64(ep))
	mix(uint64(b.Turn()) + 17)
	return eval.Pawns(float32(int(h%129)-64) / 8)
}

// CapturesOnly is a quiescence exploration: captures (incl. e.p. and capture-promotions) in MVV-LVA order.
func CapturesOnly(ctx context.Context, b *board.Board) (board.MovePriorityFn, board.MovePredicateFn) {
	return search.MVVLVA, func(m board.Move) bool { return m.IsCaptureOrEnPassant() }
}
