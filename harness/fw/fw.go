// Package fw is the small framework shared by all monitors: deterministic case lists,
// child-process workers, three-valued verdicts, replay files, known findings, evidence.
package fw

import (
	"bufio"
	"crypto/sha1"
	"encoding/hex"
	"encoding/json"
	"fmt"
	"hash/fnv"
	"math/rand"
	"os"
	"os/exec"
	"path/filepath"
	"sort"
	"strings"
	"sync"
	"syscall"
	"time"
)

// Root is the verification root: /verif, or a snapshot of it when VERIF_ROOT says so.
var Root = func() string {
	if r := os.Getenv("VERIF_ROOT"); r != "" {
		return r
	}
	return "/verif"
}()

// Case is one unit of workload. It must be fully determined by its fields.
type Case struct {
	Idx  int    `json:"idx"`
	Kind string `json:"kind"`
	Seed int64  `json:"seed"`
	N    int    `json:"n,omitempty"`
	Arg  string `json:"arg,omitempty"`
	Arg2 string `json:"arg2,omitempty"`
}

func (c Case) Rand() *rand.Rand { return rand.New(rand.NewSource(c.Seed)) }

// Violation is an observed refutation.
type Violation struct {
	Prop string `json:"property"`
	Key  string `json:"key"` // canonical identity, compared with known-findings
	Msg  string `json:"msg"`
	Case Case   `json:"case"`
	Tier string `json:"tier"`
	Seed int64  `json:"seed"`
}

// Report is what one worker observed.
type Report struct {
	Evals        int64             `json:"evals"`
	Counters     map[string]int64  `json:"counters"`
	Distinct     []uint64          `json:"distinct"`
	DistinctCap  bool              `json:"distinct_capped"`
	Samples      []json.RawMessage `json:"samples"`
	Violations   []Violation       `json:"violations"`
	Inconclusive []string          `json:"inconclusive"`
	Notes        map[string]string `json:"notes"`
}

const distinctCap = 1 << 21

// Ctx is handed to a monitor while it runs one case.
type Ctx struct {
	Prop    string
	Tier    string
	Seed    int64
	Verbose bool
	Scratch string
	Cur     Case

	mu       sync.Mutex
	rep      *Report
	distinct map[uint64]struct{}
	vkeys    map[string]int
}

func newCtx(prop, tier string, seed int64, scratch string) *Ctx {
	return &Ctx{Prop: prop, Tier: tier, Seed: seed, Scratch: scratch,
		rep:      &Report{Counters: map[string]int64{}, Notes: map[string]string{}},
		distinct: map[uint64]struct{}{}, vkeys: map[string]int{}}
}

func (c *Ctx) Quick() bool { return c.Tier != "thorough" }

// Eval counts executed evaluations.
func (c *Ctx) Eval(n int) {
	c.mu.Lock()
	c.rep.Evals += int64(n)
	c.mu.Unlock()
}

// Count bumps a category counter.
func (c *Ctx) Count(name string, n int) {
	c.mu.Lock()
	c.rep.Counters[name] += int64(n)
	c.mu.Unlock()
}

// Note records a free-form observation (last one wins).
func (c *Ctx) Note(k, v string) {
	c.mu.Lock()
	c.rep.Notes[k] = v
	c.mu.Unlock()
}

// Distinct registers a non-trivial case identity.
func (c *Ctx) Distinct(key string) {
	h := fnv.New64a()
	h.Write([]byte(key))
	c.DistinctHash(h.Sum64())
}

func (c *Ctx) DistinctHash(h uint64) {
	c.mu.Lock()
	if len(c.distinct) < distinctCap {
		c.distinct[h] = struct{}{}
	} else {
		c.rep.DistinctCap = true
	}
	c.mu.Unlock()
}

// Sample keeps a few literal cases for the evidence file.
func (c *Ctx) Sample(v any) {
	c.mu.Lock()
	defer c.mu.Unlock()
	if len(c.rep.Samples) >= 4 {
		return
	}
	b, err := json.Marshal(v)
	if err == nil {
		c.rep.Samples = append(c.rep.Samples, b)
	}
}

// Inconclusive records a case that decided nothing.
func (c *Ctx) Inconclusive(format string, a ...any) {
	c.mu.Lock()
	if len(c.rep.Inconclusive) < 50 {
		c.rep.Inconclusive = append(c.rep.Inconclusive, fmt.Sprintf(format, a...))
	}
	c.rep.Counters["inconclusive"]++
	c.mu.Unlock()
}

// Violate records a refutation of the property on the current case. At most 3 per key and 40 overall are kept.
func (c *Ctx) Violate(key string, format string, a ...any) {
	msg := fmt.Sprintf(format, a...)
	if c.Verbose {
		fmt.Printf("  violated key=%q: %s\n", key, msg)
	}
	c.mu.Lock()
	defer c.mu.Unlock()
	c.rep.Counters["violations_raw"]++
	c.vkeys[key]++
	if c.vkeys[key] > 2 || len(c.rep.Violations) >= 40 {
		return
	}
	c.rep.Violations = append(c.rep.Violations, Violation{Prop: c.Prop, Key: key, Msg: msg, Case: c.Cur, Tier: c.Tier, Seed: c.Seed})
}

func (c *Ctx) Logf(format string, a ...any) {
	if c.Verbose {
		fmt.Printf("  "+format+"\n", a...)
	}
}

func (c *Ctx) finish() *Report {
	for h := range c.distinct {
		c.rep.Distinct = append(c.rep.Distinct, h)
	}
	return c.rep
}

// Monitor is the per-property machinery.
type Monitor struct {
	ID    string
	Level string // exploration | fault_enumeration
	Race  bool   // workers use the -race build
	// RaceKinds, if set, splits the work: cases of these kinds run in workers of the -race build,
	// all others in the plain build.
	RaceKinds   map[string]bool
	Rule        string
	Technique   string
	Assumptions []string
	Exhaustive  func(tier string) bool
	Workers     int
	// Cases returns the deterministic case list for (tier, seed).
	Cases func(tier string, seed int64) []Case
	// Run executes one case.
	Run func(c *Ctx, cs Case)
	// Setup runs once per worker before its cases (e.g. oracle self-validation). Returning an error makes the run inconclusive.
	Setup func(c *Ctx) error
	// Floors are minimum counter values (summed over workers) below which the run decided nothing.
	Floors func(tier string) map[string]int64
	// Timeout for one worker process.
	Timeout func(tier string) time.Duration
	// Post is run by the orchestrator on the merged report (e.g. cross-worker checks).
	Post func(tier string, merged *Report) []Violation
}

var registry = map[string]*Monitor{}

func Register(m *Monitor)    { registry[m.ID] = m }
func Get(id string) *Monitor { return registry[id] }
func IDs() []string {
	var ids []string
	for k := range registry {
		ids = append(ids, k)
	}
	sort.Strings(ids)
	return ids
}

// ---- worker side ----

// RunWorker executes shard i of n and writes the report.
func RunWorker(m *Monitor, tier string, seed int64, shard, of int, out, scratch string, group string) {
	c := newCtx(m.ID, tier, seed, scratch)
	if m.Setup != nil {
		if err := m.Setup(c); err != nil {
			c.Inconclusive("setup: %v", err)
			writeReport(out, c.finish())
			return
		}
	}
	cases := m.Cases(tier, seed)
	w := bufio.NewWriter(os.Stdout)
	k := 0
	for _, cs := range cases {
		if group == "race" && !m.RaceKinds[cs.Kind] || group == "plain" && m.RaceKinds[cs.Kind] {
			continue
		}
		k++
		if k%of != shard {
			continue
		}
		b, _ := json.Marshal(cs)
		fmt.Fprintf(w, "CASE %s\n", b)
		w.Flush()
		c.Cur = cs
		m.Run(c, cs)
	}
	fmt.Fprintf(w, "DONE\n")
	w.Flush()
	writeReport(out, c.finish())
}

func writeReport(path string, r *Report) {
	b, _ := json.Marshal(r)
	if err := os.WriteFile(path, b, 0o644); err != nil {
		fmt.Fprintf(os.Stderr, "write report: %v\n", err)
		os.Exit(3)
	}
}

// Replay re-executes the case of a replay file verbosely.
func Replay(path string) int {
	b, err := os.ReadFile(path)
	if err != nil {
		fmt.Println(err)
		return 2
	}
	var v Violation
	if err := json.Unmarshal(b, &v); err != nil {
		fmt.Println(err)
		return 2
	}
	m := Get(v.Prop)
	if m == nil {
		fmt.Println("unknown property", v.Prop)
		return 2
	}
	scratch, _ := os.MkdirTemp(filepath.Join(Root, ".scratch"), "replay-")
	defer os.RemoveAll(scratch)
	c := newCtx(m.ID, v.Tier, v.Seed, scratch)
	c.Verbose = true
	if m.Setup != nil {
		if err := m.Setup(c); err != nil {
			fmt.Println("setup:", err)
			return 2
		}
	}
	fmt.Printf("replaying %s case %+v\nrecorded: key=%q %s\n", v.Prop, v.Case, v.Key, v.Msg)
	c.Cur = v.Case
	m.Run(c, v.Case)
	r := c.finish()
	if len(r.Violations) == 0 {
		fmt.Println("replay: no violation reproduced (schedule-dependent cases may need several attempts)")
		return 0
	}
	for _, x := range r.Violations {
		fmt.Printf("VIOLATION property=%s key=%q %s\n", x.Prop, x.Key, x.Msg)
	}
	return 1
}

// ---- orchestrator side ----

type finding struct {
	prop, key, text string
}

func loadFindings() []finding {
	var ret []finding
	b, err := os.ReadFile(filepath.Join(Root, "known-findings.txt"))
	if err != nil {
		return nil
	}
	for _, line := range strings.Split(string(b), "\n") {
		line = strings.TrimSpace(line)
		if !strings.HasPrefix(line, "finding:") {
			continue // "fixed:" lines and comments suppress nothing
		}
		rest := strings.TrimSpace(strings.TrimPrefix(line, "finding:"))
		// format: property=Cxx key="..." text
		var f finding
		if !strings.HasPrefix(rest, "property=") {
			continue
		}
		sp := strings.IndexByte(rest, ' ')
		if sp < 0 {
			continue
		}
		f.prop = rest[len("property="):sp]
		rest = strings.TrimSpace(rest[sp:])
		if !strings.HasPrefix(rest, "key=\"") {
			continue
		}
		end := strings.Index(rest[5:], "\"")
		if end < 0 {
			continue
		}
		f.key = rest[5 : 5+end]
		f.text = strings.TrimSpace(rest[5+end+1:])
		ret = append(ret, f)
	}
	return ret
}

// evidenceDir is <root>/evidence; tools that run the checks against a deliberately broken copy of the
// repository (tools/trymut) redirect it with VERIF_EVIDENCE_DIR so that the committed evidence, which
// describes the unchanged tree, is not overwritten.
func evidenceDir() string {
	if d := os.Getenv("VERIF_EVIDENCE_DIR"); d != "" {
		return d
	}
	return filepath.Join(Root, "evidence")
}

// Orchestrate runs the whole check for one property and returns the process exit code.
func Orchestrate(m *Monitor, tier string, seed int64, exe, exeRace string) int {
	start := time.Now()
	os.MkdirAll(filepath.Join(Root, ".scratch"), 0o755)
	os.MkdirAll(evidenceDir(), 0o755)
	scratch, err := os.MkdirTemp(filepath.Join(Root, ".scratch"), m.ID+"-")
	if err != nil {
		fmt.Println("scratch:", err)
		return 2
	}
	defer os.RemoveAll(scratch)

	cases := m.Cases(tier, seed)
	workers := m.Workers
	if workers == 0 {
		workers = 16
	}
	if workers > len(cases) {
		workers = len(cases)
	}
	if workers < 1 {
		workers = 1
	}
	timeout := 20 * time.Minute
	if m.Timeout != nil {
		timeout = m.Timeout(tier)
	}
	type wspec struct {
		bin, group string
		shard, of  int
	}
	var specs []wspec
	if len(m.RaceKinds) > 0 {
		nr, np := 0, 0
		for _, cs := range cases {
			if m.RaceKinds[cs.Kind] {
				nr++
			} else {
				np++
			}
		}
		wr, wp := workers, workers
		if wr > nr {
			wr = nr
		}
		if wp > np {
			wp = np
		}
		for i := 0; i < wp; i++ {
			specs = append(specs, wspec{exe, "plain", i, wp})
		}
		for i := 0; i < wr; i++ {
			specs = append(specs, wspec{exeRace, "race", i, wr})
		}
	} else {
		bin := exe
		if m.Race {
			bin = exeRace
		}
		for i := 0; i < workers; i++ {
			specs = append(specs, wspec{bin, "all", i, workers})
		}
	}
	workers = len(specs)

	type wres struct {
		rep      *Report
		crashed  bool
		timedOut bool
		lastCase *Case
		logTail  string
		exit     int
	}
	results := make([]wres, workers)
	var wg sync.WaitGroup
	for i := 0; i < workers; i++ {
		wg.Add(1)
		go func(i int) {
			defer wg.Done()
			out := filepath.Join(scratch, fmt.Sprintf("rep.%d.json", i))
			logp := filepath.Join(scratch, fmt.Sprintf("worker.%d.log", i))
			wscratch := filepath.Join(scratch, fmt.Sprintf("w%d", i))
			os.MkdirAll(wscratch, 0o755)
			lf, _ := os.Create(logp)
			sp := specs[i]
			cmd := exec.Command(sp.bin, "-worker", "-prop", m.ID, "-tier", tier, "-seed", fmt.Sprint(seed),
				"-shard", fmt.Sprint(sp.shard), "-of", fmt.Sprint(sp.of), "-group", sp.group, "-out", out, "-scratch", wscratch,
				"-logtostderr=false", "-log_dir="+wscratch)
			cmd.Stdout = lf
			cmd.Stderr = lf
			cmd.Env = append(os.Environ(), "GORACE=halt_on_error=0 exitcode=0 log_path="+filepath.Join(scratch, fmt.Sprintf("race.%d", i)))
			if err := cmd.Start(); err != nil {
				results[i] = wres{crashed: true, logTail: err.Error()}
				return
			}
			done := make(chan error, 1)
			go func() { done <- cmd.Wait() }()
			var werr error
			timedOut := false
			select {
			case werr = <-done:
			case <-time.After(timeout):
				timedOut = true
				cmd.Process.Signal(syscall.SIGQUIT) // goroutine dump into the log
				select {
				case werr = <-done:
				case <-time.After(20 * time.Second):
					cmd.Process.Kill()
					werr = <-done
				}
			}
			lf.Close()
			r := wres{timedOut: timedOut}
			if b, err := os.ReadFile(out); err == nil {
				var rep Report
				if json.Unmarshal(b, &rep) == nil {
					r.rep = &rep
				}
			}
			if werr != nil || r.rep == nil {
				r.crashed = !timedOut
				if ee, ok := werr.(*exec.ExitError); ok {
					r.exit = ee.ExitCode()
				}
				lc, tail := lastCase(logp)
				r.lastCase, r.logTail = lc, tail
			}
			results[i] = r
		}(i)
	}
	wg.Wait()

	// merge
	merged := &Report{Counters: map[string]int64{}, Notes: map[string]string{}}
	distinct := map[uint64]struct{}{}
	var violations []Violation
	inconclusiveRun := ""
	for i, r := range results {
		if r.rep != nil {
			merged.Evals += r.rep.Evals
			for k, v := range r.rep.Counters {
				merged.Counters[k] += v
			}
			for k, v := range r.rep.Notes {
				merged.Notes[k] = v
			}
			for _, h := range r.rep.Distinct {
				distinct[h] = struct{}{}
			}
			merged.DistinctCap = merged.DistinctCap || r.rep.DistinctCap
			if len(merged.Samples) < 6 {
				merged.Samples = append(merged.Samples, r.rep.Samples...)
			}
			violations = append(violations, r.rep.Violations...)
			merged.Inconclusive = append(merged.Inconclusive, r.rep.Inconclusive...)
		}
		if r.crashed {
			v := Violation{Prop: m.ID, Tier: tier, Seed: seed, Key: "crash:" + crashKey(r.logTail), Msg: fmt.Sprintf("worker %d died (exit %d): %s", i, r.exit, firstLines(r.logTail, 12))}
			if r.lastCase != nil {
				v.Case = *r.lastCase
			}
			violations = append(violations, v)
		}
		if r.timedOut {
			lc := ""
			if r.lastCase != nil {
				b, _ := json.Marshal(r.lastCase)
				lc = string(b)
			}
			inconclusiveRun = fmt.Sprintf("worker %d exceeded the %v watchdog at case %s", i, timeout, lc)
			// keep the dump for inspection
			os.MkdirAll(filepath.Join(Root, "replays"), 0o755)
			os.WriteFile(filepath.Join(Root, "replays", fmt.Sprintf("%s-watchdog-dump.txt", m.ID)), []byte(r.logTail), 0o644)
		}
	}
	// race reports
	races := collectRaces(scratch)
	for _, rc := range races {
		violations = append(violations, Violation{Prop: m.ID, Tier: tier, Seed: seed, Key: "race:" + rc.key, Msg: "DATA RACE\n" + rc.text})
	}
	merged.Counters["race_reports"] = int64(len(races))
	if m.Post != nil {
		violations = append(violations, m.Post(tier, merged)...)
	}

	// floors
	var floorMiss []string
	if m.Floors != nil {
		fl := m.Floors(tier)
		var keys []string
		for k := range fl {
			keys = append(keys, k)
		}
		sort.Strings(keys)
		for _, k := range keys {
			if merged.Counters[k] < fl[k] {
				floorMiss = append(floorMiss, fmt.Sprintf("%s=%d<%d", k, merged.Counters[k], fl[k]))
			}
		}
	}

	// classify violations against known findings
	findings := loadFindings()
	known := map[string]bool{}
	seenKey := map[string]bool{}
	var fresh []Violation
	for _, v := range violations {
		isKnown := false
		for _, f := range findings {
			if f.prop == v.Prop && f.key == v.Key {
				isKnown = true
				if !known[f.key] {
					known[f.key] = true
					fmt.Printf("KNOWN-FINDING: property=%s key=%q %s\n", v.Prop, f.key, f.text)
				}
			}
		}
		if isKnown || seenKey[v.Key] {
			continue
		}
		seenKey[v.Key] = true
		fresh = append(fresh, v)
	}

	// replay files + VIOLATION lines
	os.MkdirAll(filepath.Join(Root, "replays"), 0o755)
	for _, v := range fresh {
		b, _ := json.MarshalIndent(v, "", " ")
		sum := sha1.Sum([]byte(v.Key + "|" + fmt.Sprint(v.Case)))
		p := filepath.Join(Root, "replays", fmt.Sprintf("%s-%s.json", m.ID, hex.EncodeToString(sum[:6])))
		os.WriteFile(p, b, 0o644)
		fmt.Printf("VIOLATION property=%s replay=%s\n", m.ID, p)
		fmt.Printf("  key=%q %s\n", v.Key, firstLines(v.Msg, 30))
	}

	// evidence
	if len(merged.Samples) == 0 && len(cases) > 0 {
		b, _ := json.Marshal(map[string]any{"case": cases[0], "note": "no monitor-level sample was recorded in this run; this is the first case of the deterministic case list"})
		merged.Samples = append(merged.Samples, b)
	}
	wall := time.Since(start).Seconds()
	ev := map[string]any{
		"property_id": m.ID,
		"tier":        tierName(tier),
		"seed":        seed,
		"level":       m.Level,
		"wall_s":      wall,
		"violations":  len(fresh),
		"assumptions": m.Assumptions,
	}
	cov := map[string]any{
		"evaluations":         merged.Evals,
		"distinct_nontrivial": len(distinct),
		"rule":                m.Rule,
		"samples":             merged.Samples,
		"counters":            merged.Counters,
		"cases":               len(cases),
		"workers":             workers,
		"inconclusive_cases":  merged.Counters["inconclusive"],
		"inconclusive_sample": headStr(merged.Inconclusive, 10),
		"known_findings_seen": len(known),
		"race_detector":       m.Race || len(m.RaceKinds) > 0,
		"notes":               merged.Notes,
	}
	if merged.DistinctCap {
		cov["distinct_note"] = "distinct set capped per worker; distinct_nontrivial is a lower bound"
	}
	if m.Exhaustive != nil && m.Exhaustive(tier) {
		cov["exhaustive"] = true
	}
	if len(floorMiss) > 0 {
		cov["floors_missed"] = floorMiss
	}
	if inconclusiveRun != "" {
		cov["watchdog"] = inconclusiveRun
	}
	ev["coverage"] = cov
	eb, _ := json.MarshalIndent(ev, "", " ")
	os.WriteFile(filepath.Join(evidenceDir(), m.ID+".json"), eb, 0o644)

	fmt.Printf("%s tier=%s seed=%d cases=%d evals=%d distinct=%d violations=%d known=%d inconclusive=%d races=%d wall=%.1fs\n",
		m.ID, tier, seed, len(cases), merged.Evals, len(distinct), len(fresh), len(known), merged.Counters["inconclusive"], len(races), wall)
	var ck []string
	for k := range merged.Counters {
		ck = append(ck, k)
	}
	sort.Strings(ck)
	for _, k := range ck {
		fmt.Printf("  %-40s %d\n", k, merged.Counters[k])
	}

	if len(fresh) > 0 {
		return 1
	}
	if inconclusiveRun != "" {
		fmt.Printf("INCONCLUSIVE property=%s reason=%s\n", m.ID, inconclusiveRun)
		return 2
	}
	if len(floorMiss) > 0 {
		fmt.Printf("INCONCLUSIVE property=%s reason=coverage floors missed: %s\n", m.ID, strings.Join(floorMiss, ", "))
		return 2
	}
	if merged.Evals == 0 {
		fmt.Printf("INCONCLUSIVE property=%s reason=nothing observed\n", m.ID)
		return 2
	}
	return 0
}

func tierName(t string) string {
	if t == "thorough" {
		return "thorough"
	}
	return "quick"
}

func headStr(l []string, n int) []string {
	if len(l) > n {
		return l[:n]
	}
	return l
}

func firstLines(s string, n int) string {
	lines := strings.Split(s, "\n")
	if len(lines) > n {
		lines = lines[:n]
	}
	return strings.Join(lines, "\n")
}

// lastCase extracts the last "CASE {...}" line and the tail after it from a worker log.
func lastCase(logp string) (*Case, string) {
	b, err := os.ReadFile(logp)
	if err != nil {
		return nil, ""
	}
	s := string(b)
	idx := strings.LastIndex(s, "CASE {")
	if idx < 0 {
		if len(s) > 6000 {
			s = s[:6000]
		}
		return nil, s
	}
	rest := s[idx+5:]
	nl := strings.IndexByte(rest, '\n')
	if nl < 0 {
		nl = len(rest)
	}
	var c Case
	if json.Unmarshal([]byte(rest[:nl]), &c) != nil {
		return nil, rest
	}
	tail := rest[nl:]
	if len(tail) > 20000 {
		tail = tail[:20000]
	}
	return &c, strings.TrimSpace(tail)
}

// crashKey canonicalises a crash by its first panic / fatal error line.
func crashKey(tail string) string {
	for _, l := range strings.Split(tail, "\n") {
		l = strings.TrimSpace(l)
		if strings.HasPrefix(l, "panic:") || strings.HasPrefix(l, "fatal error:") {
			if len(l) > 120 {
				l = l[:120]
			}
			return l
		}
	}
	return "unknown"
}

type raceReport struct{ key, text string }

// collectRaces reads race.* logs, splits report blocks and dedupes them by the pair of top frames
// with line numbers stripped.
func collectRaces(dir string) []raceReport {
	files, _ := filepath.Glob(filepath.Join(dir, "race.*"))
	seen := map[string]bool{}
	var ret []raceReport
	for _, f := range files {
		b, err := os.ReadFile(f)
		if err != nil {
			continue
		}
		blocks := strings.Split(string(b), "==================")
		for _, blk := range blocks {
			if !strings.Contains(blk, "WARNING: DATA RACE") {
				continue
			}
			key := raceKey(blk)
			if seen[key] {
				continue
			}
			seen[key] = true
			if len(blk) > 5000 {
				blk = blk[:5000]
			}
			ret = append(ret, raceReport{key: key, text: strings.TrimSpace(blk)})
		}
	}
	sort.Slice(ret, func(i, j int) bool { return ret[i].key < ret[j].key })
	return ret
}

func raceKey(blk string) string {
	// the function names directly under "Write at"/"Read at"/"Previous write at"/"Previous read at"
	var fns []string
	lines := strings.Split(blk, "\n")
	for i, l := range lines {
		t := strings.TrimSpace(l)
		if (strings.HasPrefix(t, "Write at") || strings.HasPrefix(t, "Read at") || strings.HasPrefix(t, "Previous write at") || strings.HasPrefix(t, "Previous read at")) && i+1 < len(lines) {
			fn := strings.TrimSpace(lines[i+1])
			fn = strings.TrimSuffix(fn, "()")
			fns = append(fns, fn)
		}
	}
	sort.Strings(fns)
	return strings.Join(fns, " <-> ")
}

// Mix derives a sub-seed.
func Mix(seed int64, parts ...int64) int64 {
	h := uint64(seed)*0x9E3779B97F4A7C15 + 0x1234567
	for _, p := range parts {
		h ^= uint64(p) + 0x9E3779B97F4A7C15 + (h << 6) + (h >> 2)
		h *= 0xBF58476D1CE4E5B9
		h ^= h >> 31
	}
	return int64(h & 0x7fffffffffffffff)
}

// NewTestCtx and Report support ad-hoc debugging of monitors from go test.
func NewTestCtx(prop string) *Ctx {
	c := newCtx(prop, "quick", 1, os.TempDir())
	c.Verbose = true
	return c
}
func (c *Ctx) Report() *Report { return c.finish() }
