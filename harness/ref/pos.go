package ref

import (
	"fmt"
	"strconv"
	"strings"
)

// Piece kinds. Positive = white, negative = black in Pos.B.
const (
	Empty  = 0
	Pawn   = 1
	Knight = 2
	Bishop = 3
	Rook   = 4
	Queen  = 5
	King   = 6
)

// Castling flags.
const (
	CastleWK = 1 << iota
	CastleWQ
	CastleBK
	CastleBQ
)

// Move kinds, as the rules describe them.
const (
	KNormal = iota + 1
	KPush
	KJump
	KEnPassant
	KCastleQ
	KCastleK
	KCapture
	KPromotion
	KCapturePromotion
)

// Sq builds a square index: file 0..7 (a..h), rank 0..7 (1..8). a1 = 0, h8 = 63.
func Sq(file, rank int) int { return rank*8 + file }
func File(sq int) int       { return sq & 7 }
func Rank(sq int) int       { return sq >> 3 }

func SqName(sq int) string {
	return string([]byte{byte('a' + File(sq)), byte('1' + Rank(sq))})
}

// Pos is a chess position with clocks.
type Pos struct {
	B     [64]int8
	White bool  // side to move
	Cast  uint8 // castling flags
	EP    int   // en-passant target square or -1
	Half  int   // half-move clock
	Full  int   // full-move number
}

// Move is a move with the metadata the rules imply.
type Move struct {
	From, To int
	Promo    int // 0 or Knight..Queen
	Kind     int
	Piece    int // moving piece kind
	Capture  int // captured piece kind (0 if none; Pawn for e.p.)
}

func (m Move) String() string {
	s := SqName(m.From) + SqName(m.To)
	switch m.Promo {
	case Knight:
		s += "n"
	case Bishop:
		s += "b"
	case Rook:
		s += "r"
	case Queen:
		s += "q"
	}
	return s
}

func abs8(v int8) int {
	if v < 0 {
		return int(-v)
	}
	return int(v)
}

func sign(white bool) int8 {
	if white {
		return 1
	}
	return -1
}

var pieceLetters = " PNBRQK"

// ParseFEN parses a standard six-field FEN. Strict.
func ParseFEN(s string) (Pos, error) {
	var p Pos
	f := strings.Fields(s)
	if len(f) != 6 {
		return p, fmt.Errorf("fields")
	}
	rank, file := 7, 0
	for _, c := range f[0] {
		switch {
		case c == '/':
			if file != 8 {
				return p, fmt.Errorf("rank length")
			}
			rank--
			file = 0
		case c >= '1' && c <= '8':
			file += int(c - '0')
		default:
			idx := strings.IndexRune("PNBRQK", toUpper(c))
			if idx < 0 || file > 7 || rank < 0 {
				return p, fmt.Errorf("piece %q", c)
			}
			v := int8(idx + 1)
			if c >= 'a' {
				v = -v
			}
			p.B[Sq(file, rank)] = v
			file++
		}
		if file > 8 {
			return p, fmt.Errorf("rank overflow")
		}
	}
	if rank != 0 || file != 8 {
		return p, fmt.Errorf("board size")
	}
	switch f[1] {
	case "w":
		p.White = true
	case "b":
	default:
		return p, fmt.Errorf("side")
	}
	if f[2] != "-" {
		for _, c := range f[2] {
			switch c {
			case 'K':
				p.Cast |= CastleWK
			case 'Q':
				p.Cast |= CastleWQ
			case 'k':
				p.Cast |= CastleBK
			case 'q':
				p.Cast |= CastleBQ
			default:
				return p, fmt.Errorf("castling")
			}
		}
	}
	p.EP = -1
	if f[3] != "-" {
		if len(f[3]) != 2 || f[3][0] < 'a' || f[3][0] > 'h' || f[3][1] < '1' || f[3][1] > '8' {
			return p, fmt.Errorf("ep")
		}
		p.EP = Sq(int(f[3][0]-'a'), int(f[3][1]-'1'))
	}
	var err error
	if p.Half, err = strconv.Atoi(f[4]); err != nil || p.Half < 0 {
		return p, fmt.Errorf("half")
	}
	if p.Full, err = strconv.Atoi(f[5]); err != nil || p.Full < 0 {
		return p, fmt.Errorf("full")
	}
	return p, nil
}

func toUpper(c rune) rune {
	if c >= 'a' && c <= 'z' {
		return c - 32
	}
	return c
}

// MustFEN parses or panics.
func MustFEN(s string) Pos {
	p, err := ParseFEN(s)
	if err != nil {
		panic(fmt.Sprintf("bad fen %q: %v", s, err))
	}
	return p
}

// Placement returns the first FEN field.
func (p *Pos) Placement() string {
	var sb strings.Builder
	for r := 7; r >= 0; r-- {
		blanks := 0
		for f := 0; f < 8; f++ {
			v := p.B[Sq(f, r)]
			if v == 0 {
				blanks++
				continue
			}
			if blanks > 0 {
				sb.WriteByte(byte('0' + blanks))
				blanks = 0
			}
			c := pieceLetters[abs8(v)]
			if v < 0 {
				c += 32
			}
			sb.WriteByte(c)
		}
		if blanks > 0 {
			sb.WriteByte(byte('0' + blanks))
		}
		if r > 0 {
			sb.WriteByte('/')
		}
	}
	return sb.String()
}

func (p *Pos) sideStr() string {
	if p.White {
		return "w"
	}
	return "b"
}

func (p *Pos) CastStr() string {
	if p.Cast == 0 {
		return "-"
	}
	s := ""
	if p.Cast&CastleWK != 0 {
		s += "K"
	}
	if p.Cast&CastleWQ != 0 {
		s += "Q"
	}
	if p.Cast&CastleBK != 0 {
		s += "k"
	}
	if p.Cast&CastleBQ != 0 {
		s += "q"
	}
	return s
}

func (p *Pos) epStr() string {
	if p.EP < 0 {
		return "-"
	}
	return SqName(p.EP)
}

// Key is the repetition identity: placement, side to move, castling rights, e.p. target.
func (p *Pos) Key() string {
	return p.Placement() + " " + p.sideStr() + " " + p.CastStr() + " " + p.epStr()
}

// FEN prints the canonical FEN.
func (p *Pos) FEN() string {
	return p.Key() + " " + strconv.Itoa(p.Half) + " " + strconv.Itoa(p.Full)
}

var knightD = [8][2]int{{1, 2}, {2, 1}, {2, -1}, {1, -2}, {-1, -2}, {-2, -1}, {-2, 1}, {-1, 2}}
var kingD = [8][2]int{{1, 0}, {1, 1}, {0, 1}, {-1, 1}, {-1, 0}, {-1, -1}, {0, -1}, {1, -1}}
var rookD = [4][2]int{{1, 0}, {0, 1}, {-1, 0}, {0, -1}}
var bishopD = [4][2]int{{1, 1}, {-1, 1}, {-1, -1}, {1, -1}}

func on(f, r int) bool { return f >= 0 && f < 8 && r >= 0 && r < 8 }

// Attackers returns the squares of all pieces of the given colour that attack sq
// (geometrically; pins are irrelevant, e.p. is not an attack on a square).
func (p *Pos) Attackers(sq int, byWhite bool) []int {
	var ret []int
	s := sign(byWhite)
	f0, r0 := File(sq), Rank(sq)
	// pawns: a white pawn on (f±1, r-1) attacks (f, r)
	dr := -1
	if !byWhite {
		dr = 1
	}
	for _, df := range []int{-1, 1} {
		if f, r := f0+df, r0+dr; on(f, r) && p.B[Sq(f, r)] == s*Pawn {
			ret = append(ret, Sq(f, r))
		}
	}
	for _, d := range knightD {
		if f, r := f0+d[0], r0+d[1]; on(f, r) && p.B[Sq(f, r)] == s*Knight {
			ret = append(ret, Sq(f, r))
		}
	}
	for _, d := range kingD {
		if f, r := f0+d[0], r0+d[1]; on(f, r) && p.B[Sq(f, r)] == s*King {
			ret = append(ret, Sq(f, r))
		}
	}
	for _, d := range rookD {
		for f, r := f0+d[0], r0+d[1]; on(f, r); f, r = f+d[0], r+d[1] {
			v := p.B[Sq(f, r)]
			if v == 0 {
				continue
			}
			if v == s*Rook || v == s*Queen {
				ret = append(ret, Sq(f, r))
			}
			break
		}
	}
	for _, d := range bishopD {
		for f, r := f0+d[0], r0+d[1]; on(f, r); f, r = f+d[0], r+d[1] {
			v := p.B[Sq(f, r)]
			if v == 0 {
				continue
			}
			if v == s*Bishop || v == s*Queen {
				ret = append(ret, Sq(f, r))
			}
			break
		}
	}
	return ret
}

// Attacked reports whether sq is attacked by the given colour.
func (p *Pos) Attacked(sq int, byWhite bool) bool {
	return len(p.Attackers(sq, byWhite)) > 0
}

// KingSq returns the king square of the colour, or -1.
func (p *Pos) KingSq(white bool) int {
	k := sign(white) * King
	for i, v := range p.B {
		if v == k {
			return i
		}
	}
	return -1
}

// InCheck reports whether the colour's king is attacked.
func (p *Pos) InCheck(white bool) bool {
	k := p.KingSq(white)
	return k >= 0 && p.Attacked(k, !white)
}

// Reach returns the squares a piece of the given kind standing on sq attacks given the
// occupancy of p (sliders stop at and include the first occupied square). Pawn needs colour.
func (p *Pos) Reach(sq int, kind int, white bool) []int {
	var ret []int
	f0, r0 := File(sq), Rank(sq)
	step := func(ds [][2]int) {
		for _, d := range ds {
			if f, r := f0+d[0], r0+d[1]; on(f, r) {
				ret = append(ret, Sq(f, r))
			}
		}
	}
	slide := func(ds [][2]int) {
		for _, d := range ds {
			for f, r := f0+d[0], r0+d[1]; on(f, r); f, r = f+d[0], r+d[1] {
				ret = append(ret, Sq(f, r))
				if p.B[Sq(f, r)] != 0 {
					break
				}
			}
		}
	}
	switch kind {
	case Pawn:
		dr := 1
		if !white {
			dr = -1
		}
		step([][2]int{{-1, dr}, {1, dr}})
	case Knight:
		step(knightD[:])
	case King:
		step(kingD[:])
	case Rook:
		slide(rookD[:])
	case Bishop:
		slide(bishopD[:])
	case Queen:
		slide(rookD[:])
		slide(bishopD[:])
	}
	return ret
}

// pseudo generates pseudo-legal moves for the side to move (castling already fully checked).
func (p *Pos) pseudo() []Move {
	var ret []Move
	s := sign(p.White)
	add := func(from, to, kind, piece, capture int) {
		ret = append(ret, Move{From: from, To: to, Kind: kind, Piece: piece, Capture: capture})
	}
	addPromo := func(from, to, kind, capture int) {
		for _, pr := range []int{Queen, Rook, Knight, Bishop} {
			ret = append(ret, Move{From: from, To: to, Promo: pr, Kind: kind, Piece: Pawn, Capture: capture})
		}
	}
	for from, v := range p.B {
		if v == 0 || (v > 0) != p.White {
			continue
		}
		kind := abs8(v)
		f0, r0 := File(from), Rank(from)
		switch kind {
		case Pawn:
			dr, start, last := 1, 1, 7
			if !p.White {
				dr, start, last = -1, 6, 0
			}
			if r := r0 + dr; on(f0, r) && p.B[Sq(f0, r)] == 0 {
				if r == last {
					addPromo(from, Sq(f0, r), KPromotion, 0)
				} else {
					add(from, Sq(f0, r), KPush, Pawn, 0)
					if r0 == start && p.B[Sq(f0, r+dr)] == 0 {
						add(from, Sq(f0, r+dr), KJump, Pawn, 0)
					}
				}
			}
			for _, df := range []int{-1, 1} {
				f, r := f0+df, r0+dr
				if !on(f, r) {
					continue
				}
				to := Sq(f, r)
				t := p.B[to]
				if t != 0 && (t > 0) != p.White {
					if r == last {
						addPromo(from, to, KCapturePromotion, abs8(t))
					} else {
						add(from, to, KCapture, Pawn, abs8(t))
					}
				} else if t == 0 && to == p.EP {
					// e.p.: the pawn to be taken must stand beside us, having just jumped
					if p.B[Sq(f, r0)] == -s*Pawn {
						add(from, to, KEnPassant, Pawn, Pawn)
					}
				}
			}
		case Knight, King:
			ds := knightD
			if kind == King {
				ds = kingD
			}
			for _, d := range ds {
				f, r := f0+d[0], r0+d[1]
				if !on(f, r) {
					continue
				}
				to := Sq(f, r)
				t := p.B[to]
				if t == 0 {
					add(from, to, KNormal, kind, 0)
				} else if (t > 0) != p.White {
					add(from, to, KCapture, kind, abs8(t))
				}
			}
		default:
			var ds [][2]int
			if kind == Rook || kind == Queen {
				ds = append(ds, rookD[:]...)
			}
			if kind == Bishop || kind == Queen {
				ds = append(ds, bishopD[:]...)
			}
			for _, d := range ds {
				for f, r := f0+d[0], r0+d[1]; on(f, r); f, r = f+d[0], r+d[1] {
					to := Sq(f, r)
					t := p.B[to]
					if t == 0 {
						add(from, to, KNormal, kind, 0)
						continue
					}
					if (t > 0) != p.White {
						add(from, to, KCapture, kind, abs8(t))
					}
					break
				}
			}
		}
	}
	// castling
	rank := 0
	kflag, qflag := uint8(CastleWK), uint8(CastleWQ)
	if !p.White {
		rank = 7
		kflag, qflag = CastleBK, CastleBQ
	}
	e := Sq(4, rank)
	if p.B[e] == s*King && !p.Attacked(e, !p.White) {
		if p.Cast&kflag != 0 && p.B[Sq(7, rank)] == s*Rook && p.B[Sq(5, rank)] == 0 && p.B[Sq(6, rank)] == 0 &&
			!p.Attacked(Sq(5, rank), !p.White) && !p.Attacked(Sq(6, rank), !p.White) {
			add(e, Sq(6, rank), KCastleK, King, 0)
		}
		if p.Cast&qflag != 0 && p.B[Sq(0, rank)] == s*Rook && p.B[Sq(1, rank)] == 0 && p.B[Sq(2, rank)] == 0 && p.B[Sq(3, rank)] == 0 &&
			!p.Attacked(Sq(3, rank), !p.White) && !p.Attacked(Sq(2, rank), !p.White) {
			add(e, Sq(2, rank), KCastleQ, King, 0)
		}
	}
	return ret
}

// Apply plays the move and returns the successor (no legality check). The e.p. target is set
// after every double pawn step (the convention of the system under test and of FEN).
func (p *Pos) Apply(m Move) Pos {
	n := *p
	s := sign(p.White)
	v := n.B[m.From]
	n.B[m.From] = 0
	switch m.Kind {
	case KEnPassant:
		n.B[Sq(File(m.To), Rank(m.From))] = 0
	case KCastleK:
		r := Rank(m.From)
		n.B[Sq(7, r)] = 0
		n.B[Sq(5, r)] = s * Rook
	case KCastleQ:
		r := Rank(m.From)
		n.B[Sq(0, r)] = 0
		n.B[Sq(3, r)] = s * Rook
	}
	if m.Promo != 0 {
		v = s * int8(m.Promo)
	}
	n.B[m.To] = v

	// castling rights: king or rook leaves, or anything lands on, a home square
	for _, sq := range []int{m.From, m.To} {
		switch sq {
		case Sq(4, 0):
			n.Cast &^= CastleWK | CastleWQ
		case Sq(7, 0):
			n.Cast &^= CastleWK
		case Sq(0, 0):
			n.Cast &^= CastleWQ
		case Sq(4, 7):
			n.Cast &^= CastleBK | CastleBQ
		case Sq(7, 7):
			n.Cast &^= CastleBK
		case Sq(0, 7):
			n.Cast &^= CastleBQ
		}
	}
	n.EP = -1
	if m.Kind == KJump {
		n.EP = (m.From + m.To) / 2
	}
	if m.Piece == Pawn || m.Capture != 0 {
		n.Half = 0
	} else {
		n.Half = p.Half + 1
	}
	if !p.White {
		n.Full = p.Full + 1
	}
	n.White = !p.White
	return n
}

// LegalMoves returns the legal moves of the side to move.
func (p *Pos) LegalMoves() []Move {
	var ret []Move
	for _, m := range p.pseudo() {
		n := p.Apply(m)
		if !n.InCheck(p.White) {
			ret = append(ret, m)
		}
	}
	return ret
}

// FindMove finds the legal move with the given coordinates.
func (p *Pos) FindMove(from, to, promo int) (Move, bool) {
	for _, m := range p.LegalMoves() {
		if m.From == from && m.To == to && m.Promo == promo {
			return m, true
		}
	}
	return Move{}, false
}

// ParseMoveStr parses "e2e4"/"e7e8q" (lower-case only) into coordinates.
func ParseMoveStr(s string) (from, to, promo int, ok bool) {
	if len(s) != 4 && len(s) != 5 {
		return
	}
	for i := 0; i < 4; i += 2 {
		if s[i] < 'a' || s[i] > 'h' || s[i+1] < '1' || s[i+1] > '8' {
			return
		}
	}
	from = Sq(int(s[0]-'a'), int(s[1]-'1'))
	to = Sq(int(s[2]-'a'), int(s[3]-'1'))
	if len(s) == 5 {
		switch s[4] {
		case 'n':
			promo = Knight
		case 'b':
			promo = Bishop
		case 'r':
			promo = Rook
		case 'q':
			promo = Queen
		default:
			return
		}
	}
	return from, to, promo, true
}

// Perft counts leaf nodes.
func (p *Pos) Perft(d int) uint64 {
	if d == 0 {
		return 1
	}
	ms := p.LegalMoves()
	if d == 1 {
		return uint64(len(ms))
	}
	var n uint64
	for _, m := range ms {
		c := p.Apply(m)
		n += c.Perft(d - 1)
	}
	return n
}

// Mirror flips the board vertically and swaps colours (and side to move, rights, e.p.).
func (p *Pos) Mirror() Pos {
	var n Pos
	for sq, v := range p.B {
		n.B[Sq(File(sq), 7-Rank(sq))] = -v
	}
	n.White = !p.White
	if p.Cast&CastleWK != 0 {
		n.Cast |= CastleBK
	}
	if p.Cast&CastleWQ != 0 {
		n.Cast |= CastleBQ
	}
	if p.Cast&CastleBK != 0 {
		n.Cast |= CastleWK
	}
	if p.Cast&CastleBQ != 0 {
		n.Cast |= CastleWQ
	}
	n.EP = -1
	if p.EP >= 0 {
		n.EP = Sq(File(p.EP), 7-Rank(p.EP))
	}
	n.Half, n.Full = p.Half, p.Full
	return n
}

// MirrorMove mirrors a move.
func MirrorMove(m Move) Move {
	m.From = Sq(File(m.From), 7-Rank(m.From))
	m.To = Sq(File(m.To), 7-Rank(m.To))
	return m
}

// Insufficient reports the material classes the property names: K v K, K+minor v K,
// and kings plus exactly two bishops standing on squares of one colour.
func (p *Pos) Insufficient() bool {
	var minors, others int
	var bishopSq []int
	for sq, v := range p.B {
		switch abs8(v) {
		case Empty, King:
		case Knight:
			minors++
		case Bishop:
			minors++
			bishopSq = append(bishopSq, sq)
		default:
			others++
		}
	}
	if others > 0 {
		return false
	}
	switch minors {
	case 0, 1:
		return true
	case 2:
		if len(bishopSq) == 2 {
			c0 := (File(bishopSq[0]) + Rank(bishopSq[0])) & 1
			c1 := (File(bishopSq[1]) + Rank(bishopSq[1])) & 1
			return c0 == c1
		}
	}
	return false
}

// Pin is an absolute-style pin against a target piece.
type Pin struct{ Attacker, Pinned, Target int }

// Pins returns, by definition, every own piece that is the only piece between a target piece
// (of the given kind and colour) and an enemy slider that moves along that line.
func (p *Pos) Pins(white bool, targetKind int) []Pin {
	var ret []Pin
	s := sign(white)
	for t, v := range p.B {
		if v != s*int8(targetKind) {
			continue
		}
		for di, ds := range [][][2]int{rookD[:], bishopD[:]} {
			for _, d := range ds {
				pinned := -1
				for f, r := File(t)+d[0], Rank(t)+d[1]; on(f, r); f, r = f+d[0], r+d[1] {
					sq := Sq(f, r)
					w := p.B[sq]
					if w == 0 {
						continue
					}
					if pinned < 0 {
						if (w > 0) == white {
							pinned = sq
							continue
						}
						break
					}
					// second piece on the ray
					if (w > 0) != white {
						k := abs8(w)
						if k == Queen || (di == 0 && k == Rook) || (di == 1 && k == Bishop) {
							ret = append(ret, Pin{Attacker: sq, Pinned: pinned, Target: t})
						}
					}
					break
				}
			}
		}
	}
	return ret
}
