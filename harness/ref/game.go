package ref

// Game is the reference game history: positions with occurrence counts and the FIDE clock.
type Game struct {
	Start Pos
	Cur   Pos
	Moves []Move
	keys  []string // key of every position reached, start included
	count map[string]int

	// sticky flags: has any of the three draw events happened so far?
	EverDrawn bool
}

// NewGame starts a game from a position (its clocks count on).
func NewGame(start Pos) *Game {
	g := &Game{Start: start, Cur: start, count: map[string]int{}}
	k := start.Key()
	g.keys = append(g.keys, k)
	g.count[k] = 1
	return g
}

// Clone copies the game (for forks).
func (g *Game) Clone() *Game {
	n := &Game{Start: g.Start, Cur: g.Cur, EverDrawn: g.EverDrawn, count: map[string]int{}}
	n.Moves = append([]Move(nil), g.Moves...)
	n.keys = append([]string(nil), g.keys...)
	for k, v := range g.count {
		n.count[k] = v
	}
	return n
}

// Event describes what the rules say about the position just reached.
type Event struct {
	Count        int  // occurrences of the new position so far (incl. this one)
	Clock        int  // half-move clock
	Insufficient bool // the move was a capture or under-promotion leaving insufficient material
	Drawn        bool // any of: Count>=3, Clock>=100, Insufficient
}

// Push plays a legal move (caller guarantees legality).
func (g *Game) Push(m Move) Event {
	prev := g.Cur
	g.Cur = prev.Apply(m)
	g.Moves = append(g.Moves, m)
	k := g.Cur.Key()
	g.keys = append(g.keys, k)
	g.count[k]++
	ev := Event{Count: g.count[k], Clock: g.Cur.Half}
	if m.Kind == KCapture || ((m.Kind == KPromotion || m.Kind == KCapturePromotion) && (m.Promo == Knight || m.Promo == Bishop)) {
		ev.Insufficient = g.Cur.Insufficient()
	}
	ev.Drawn = ev.Count >= 3 || ev.Clock >= 100 || ev.Insufficient
	if ev.Drawn {
		g.EverDrawn = true
	}
	return ev
}

// Pop takes the last move back. EverDrawn is recomputed by the caller if needed.
func (g *Game) Pop() bool {
	if len(g.Moves) == 0 {
		return false
	}
	k := g.keys[len(g.keys)-1]
	g.count[k]--
	if g.count[k] == 0 {
		delete(g.count, k)
	}
	g.keys = g.keys[:len(g.keys)-1]
	g.Moves = g.Moves[:len(g.Moves)-1]
	// replay position (cheap enough: positions are small)
	p := g.Start
	for _, m := range g.Moves {
		p = p.Apply(m)
	}
	g.Cur = p
	return true
}

// CountOf returns how often the current position has occurred.
func (g *Game) CountOf() int { return g.count[g.Cur.Key()] }

// Plies returns the number of moves played.
func (g *Game) Plies() int { return len(g.Moves) }

// PerftTable holds published perft node counts: values from outside both implementations.
var PerftTable = []struct {
	Name   string
	FEN    string
	Counts []uint64 // depth 1..
}{
	{"initial", "rnbqkbnr/pppppppp/8/8/8/8/PPPPPPPP/RNBQKBNR w KQkq - 0 1", []uint64{20, 400, 8902, 197281, 4865609}},
	{"kiwipete", "r3k2r/p1ppqpb1/bn2pnp1/3PN3/1p2P3/2N2Q1p/PPPBBPPP/R3K2R w KQkq - 0 1", []uint64{48, 2039, 97862, 4085603}},
	{"position3", "8/2p5/3p4/KP5r/1R3p1k/8/4P1P1/8 w - - 0 1", []uint64{14, 191, 2812, 43238, 674624}},
	{"position4", "r3k2r/Pppp1ppp/1b3nbN/nP6/BBP1P3/q4N2/Pp1P2PP/R2Q1RK1 w kq - 0 1", []uint64{6, 264, 9467, 422333}},
	{"position5", "rnbq1k1r/pp1Pbppp/2p5/8/2B5/8/PPP1NnPP/RNBQK2R w KQ - 1 8", []uint64{44, 1486, 62379, 2103487}},
	{"position6", "r4rk1/1pp1qppp/p1np1n2/2b1p1B1/2B1P1b1/P1NP1N2/1PP1QPPP/R4RK1 w - - 0 10", []uint64{46, 2079, 89890, 3894594}},
}

// SelfValidate checks the oracle against the published perft table up to maxDepth.
// Returns the number of nodes counted and the first mismatch, if any.
func SelfValidate(maxDepth int) (uint64, string) {
	var total uint64
	for _, e := range PerftTable {
		p := MustFEN(e.FEN)
		for d := 1; d <= len(e.Counts) && d <= maxDepth; d++ {
			n := p.Perft(d)
			total += n
			if n != e.Counts[d-1] {
				return total, e.Name
			}
		}
	}
	return total, ""
}

// NewGameFrom builds a game by replaying legal moves.
func NewGameFrom(start Pos, moves []Move) *Game {
	g := NewGame(start)
	for _, m := range moves {
		g.Push(m)
	}
	return g
}
