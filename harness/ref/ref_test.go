package ref

import "testing"

func TestPerft(t *testing.T) {
	n, bad := SelfValidate(4)
	if bad != "" {
		t.Fatalf("mismatch at %v", bad)
	}
	t.Logf("nodes=%d", n)
}
