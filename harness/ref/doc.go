// Package ref is an independent, deliberately naive implementation of the rules of chess
// (64-entry mailbox, ray walking). It shares no code with herohde/morlock.
package ref
