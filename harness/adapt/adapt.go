// Package adapt converts between the reference oracle (package ref) and the system under test.
package adapt

import (
	"fmt"
	"sort"
	"strings"

	"github.com/herohde/morlock/pkg/board"
	"github.com/herohde/morlock/pkg/board/fen"

	"verif/ref"
)

// BSq converts a ref square (a1=0..h8=63) to a morlock square (h1=0..a8=63).
func BSq(sq int) board.Square {
	return board.Square(ref.Rank(sq)*8 + (7 - ref.File(sq)))
}

// RSq converts a morlock square to a ref square.
func RSq(sq board.Square) int {
	return ref.Sq(7-int(sq&7), int(sq>>3))
}

func BPiece(k int) board.Piece {
	switch k {
	case ref.Pawn:
		return board.Pawn
	case ref.Knight:
		return board.Knight
	case ref.Bishop:
		return board.Bishop
	case ref.Rook:
		return board.Rook
	case ref.Queen:
		return board.Queen
	case ref.King:
		return board.King
	}
	return board.NoPiece
}

func RPiece(p board.Piece) int {
	switch p {
	case board.Pawn:
		return ref.Pawn
	case board.Knight:
		return ref.Knight
	case board.Bishop:
		return ref.Bishop
	case board.Rook:
		return ref.Rook
	case board.Queen:
		return ref.Queen
	case board.King:
		return ref.King
	}
	return ref.Empty
}

func BColor(white bool) board.Color {
	if white {
		return board.White
	}
	return board.Black
}

func BCastling(c uint8) board.Castling {
	var r board.Castling
	if c&ref.CastleWK != 0 {
		r |= board.WhiteKingSideCastle
	}
	if c&ref.CastleWQ != 0 {
		r |= board.WhiteQueenSideCastle
	}
	if c&ref.CastleBK != 0 {
		r |= board.BlackKingSideCastle
	}
	if c&ref.CastleBQ != 0 {
		r |= board.BlackQueenSideCastle
	}
	return r
}

func RCastling(c board.Castling) uint8 {
	var r uint8
	if c&board.WhiteKingSideCastle != 0 {
		r |= ref.CastleWK
	}
	if c&board.WhiteQueenSideCastle != 0 {
		r |= ref.CastleWQ
	}
	if c&board.BlackKingSideCastle != 0 {
		r |= ref.CastleBK
	}
	if c&board.BlackQueenSideCastle != 0 {
		r |= ref.CastleBQ
	}
	return r
}

func BKind(k int) board.MoveType {
	switch k {
	case ref.KNormal:
		return board.Normal
	case ref.KPush:
		return board.Push
	case ref.KJump:
		return board.Jump
	case ref.KEnPassant:
		return board.EnPassant
	case ref.KCastleQ:
		return board.QueenSideCastle
	case ref.KCastleK:
		return board.KingSideCastle
	case ref.KCapture:
		return board.Capture
	case ref.KPromotion:
		return board.Promotion
	case ref.KCapturePromotion:
		return board.CapturePromotion
	}
	return 0
}

// Position builds a morlock position from the oracle's, through NewPosition (not through the FEN codec).
func Position(p ref.Pos) (*board.Position, error) {
	var pl []board.Placement
	for sq, v := range p.B {
		if v == 0 {
			continue
		}
		k := int(v)
		if k < 0 {
			k = -k
		}
		pl = append(pl, board.Placement{Square: BSq(sq), Color: BColor(v > 0), Piece: BPiece(k)})
	}
	var ep board.Square
	if p.EP >= 0 {
		ep = BSq(p.EP)
	}
	return board.NewPosition(pl, BCastling(p.Cast), ep)
}

// Board builds a game board from the oracle position with the given zobrist table.
func Board(zt *board.ZobristTable, p ref.Pos) (*board.Board, error) {
	pos, err := Position(p)
	if err != nil {
		return nil, err
	}
	return board.NewBoard(zt, pos, BColor(p.White), p.Half, p.Full), nil
}

// MustBoard panics on error.
func MustBoard(zt *board.ZobristTable, p ref.Pos) *board.Board {
	b, err := Board(zt, p)
	if err != nil {
		panic(err)
	}
	return b
}

// RefPos reads a morlock position back through its public square lookup.
func RefPos(pos *board.Position, turn board.Color, np, fm int) ref.Pos {
	var p ref.Pos
	for sq := board.ZeroSquare; sq < board.NumSquares; sq++ {
		if c, pc, ok := pos.Square(sq); ok {
			v := int8(RPiece(pc))
			if c == board.Black {
				v = -v
			}
			p.B[RSq(sq)] = v
		}
	}
	p.White = turn == board.White
	p.Cast = RCastling(pos.Castling())
	p.EP = -1
	if ep, ok := pos.EnPassant(); ok {
		p.EP = RSq(ep)
	}
	p.Half, p.Full = np, fm
	return p
}

// RefOfBoard reads a board.
func RefOfBoard(b *board.Board) ref.Pos {
	return RefPos(b.Position(), b.Turn(), b.NoProgress(), b.FullMoves())
}

// MoveTuple is the (from,to,promo) identity of a move in ref coordinates.
type MoveTuple struct{ From, To, Promo int }

func TupleOfB(m board.Move) MoveTuple {
	return MoveTuple{RSq(m.From), RSq(m.To), RPiece(m.Promotion)}
}

func TupleOfR(m ref.Move) MoveTuple { return MoveTuple{m.From, m.To, m.Promo} }

func (t MoveTuple) String() string {
	return ref.Move{From: t.From, To: t.To, Promo: t.Promo}.String()
}

func SortTuples(l []MoveTuple) {
	sort.Slice(l, func(i, j int) bool {
		a, b := l[i], l[j]
		if a.From != b.From {
			return a.From < b.From
		}
		if a.To != b.To {
			return a.To < b.To
		}
		return a.Promo < b.Promo
	})
}

func TuplesStr(l []MoveTuple) string {
	var s []string
	for _, t := range l {
		s = append(s, t.String())
	}
	return strings.Join(s, " ")
}

// FindB finds the pseudo-legal morlock move matching the oracle move in the position.
func FindB(pos *board.Position, turn board.Color, m ref.Move) (board.Move, bool) {
	want := TupleOfR(m)
	for _, bm := range pos.PseudoLegalMoves(turn) {
		if TupleOfB(bm) == want {
			return bm, true
		}
	}
	return board.Move{}, false
}

// Push plays the oracle move on the board under test. Returns false if the board refuses.
func Push(b *board.Board, m ref.Move) bool {
	bm, ok := FindB(b.Position(), b.Turn(), m)
	if !ok {
		return false
	}
	return b.PushMove(bm)
}

// Snap is everything a game board reports.
type Snap struct {
	Pos        board.Position
	Turn       board.Color
	Hash       board.ZobristHash
	NoProgress int
	Ply        int
	FullMoves  int
	CastledW   bool
	CastledB   bool
	Last       board.Move
	HasLast    bool
	Second     board.Move
	HasSecond  bool
	Moved      [4]board.Bitboard
	Outcome    board.Outcome // normalised: Unknown == Undecided
	Reason     board.Reason
	FEN        string
}

var movedLimits = [4]int{1, 2, 5, 1000}

// TakeSnap records the observable state of a board.
func TakeSnap(b *board.Board) Snap {
	s := Snap{
		Pos: *b.Position(), Turn: b.Turn(), Hash: b.Hash(), NoProgress: b.NoProgress(), Ply: b.Ply(),
		FullMoves: b.FullMoves(), CastledW: b.HasCastled(board.White), CastledB: b.HasCastled(board.Black),
	}
	s.Last, s.HasLast = b.LastMove()
	s.Second, s.HasSecond = b.SecondToLastMove()
	for i, l := range movedLimits {
		s.Moved[i] = b.HasMoved(l)
	}
	r := b.Result()
	s.Outcome, s.Reason = r.Outcome, r.Reason
	if s.Outcome == board.Unknown {
		s.Outcome = board.Undecided
	}
	s.FEN = fen.Encode(b.Position(), b.Turn(), b.NoProgress(), b.FullMoves())
	return s
}

// Diff describes the first difference between two snapshots ("" if equal).
func (s Snap) Diff(o Snap) string {
	switch {
	case fenPosition(s.FEN) != fenPosition(o.FEN):
		// compared as reported (placement, side, rights, e.p.), not by representation: a position may carry
		// caches that a read-only query fills
		return fmt.Sprintf("position %v != %v", s.FEN, o.FEN)
	case s.Turn != o.Turn:
		return "turn"
	case s.Hash != o.Hash:
		return fmt.Sprintf("hash %x != %x", s.Hash, o.Hash)
	case s.NoProgress != o.NoProgress:
		return fmt.Sprintf("noprogress %d != %d", s.NoProgress, o.NoProgress)
	case s.Ply != o.Ply:
		return fmt.Sprintf("ply %d != %d", s.Ply, o.Ply)
	case s.FullMoves != o.FullMoves:
		return fmt.Sprintf("fullmoves %d != %d", s.FullMoves, o.FullMoves)
	case s.CastledW != o.CastledW || s.CastledB != o.CastledB:
		return "hasCastled"
	case s.HasLast != o.HasLast || s.Last != o.Last:
		return fmt.Sprintf("lastmove %v != %v", s.Last, o.Last)
	case s.HasSecond != o.HasSecond || s.Second != o.Second:
		return fmt.Sprintf("secondtolast %v != %v", s.Second, o.Second)
	case s.Moved != o.Moved:
		return "hasMoved"
	case s.Outcome != o.Outcome || s.Reason != o.Reason:
		return fmt.Sprintf("result %v/%v != %v/%v", s.Outcome, s.Reason, o.Outcome, o.Reason)
	}
	return ""
}

// fenPosition is the position part of a FEN (without the two counters).
func fenPosition(f string) string {
	n := 0
	for i := 0; i < len(f); i++ {
		if f[i] == ' ' {
			n++
			if n == 4 {
				return f[:i]
			}
		}
	}
	return f
}

// DiffNoResult compares everything except the result.
func (s Snap) DiffNoResult(o Snap) string {
	o.Outcome, o.Reason = s.Outcome, s.Reason
	return s.Diff(o)
}
