module verif

go 1.21

replace github.com/herohde/morlock => /repo

require github.com/herohde/morlock v0.0.0-00010101000000-000000000000

require github.com/seekerror/stdlib v0.0.0-20231216224128-fab4c1e73ebe // indirect
